"""mhlsim.explore -- the general 'history exploration' profile shared by the monitor-style checks
(C06, C10, C11, C14 ...): a seeded swarm of command / option / edit / clock sequences on random worlds."""

import os

from . import core, gen, observe, scen
from .driver import ddmin_list

TEXTS = ["Jane Doe", "José Ñandú", "山田 太郎", "O'Brien & Sons <dit>", "a \"quoted\" name", " leading and trailing ",
         "x", "Zoë—dash", "tab-free text with ; and , and =", "]]> &amp; &#x41;", "ÅÄÖ åäö", "é combining", "🎬 take 1"]
EMAILS = ["jane@example.com", "a.b-c+d@sub.example.org", "x@y.zz"]
PHONES = ["+1 555 0100", "0049-30-123456", "12345"]
ROLES = ["DIT", "Data Wrangler", "Loader & <Runner>", "助手"]
PATTERNS = ["*.bak", "tmp*", "cache/", "notes", "*.xml", "z9", "sub/", "*.jpg", "d1", "clip0?.mov", "!d1", "!sub", "*.mov",
            "A/B/*.bin", "/d1/notes"]


def _creator_args(rng):
    args = []
    if rng.random() < 0.7:
        args += ["--author_name", rng.choice(TEXTS)]
    if rng.random() < 0.5:
        args += ["--author_email", rng.choice(EMAILS)]
    if rng.random() < 0.3:
        args += ["--author_phone", rng.choice(PHONES)]
    if rng.random() < 0.3:
        args += ["--author_role", rng.choice(ROLES)]
    if rng.random() < 0.4:
        args += ["--location", rng.choice(TEXTS)]
    if rng.random() < 0.4:
        args += ["--comment", rng.choice(TEXTS)]
    return args


def gen_create(rng, state, weights):
    tree = state["tree"]
    roots = [""] + state["nested"]
    root = rng.choice(roots) if rng.random() < 0.35 else ""
    r = rng.random()
    if r < 0.08:
        fmts = list(observe.FORMATS)
    elif r < 0.16:
        fmts = gen.pick_formats(rng, 1, 2)
        fmts = fmts + [fmts[0]]  # repeated -h
    else:
        fmts = gen.pick_formats(rng, 1, 3)
    args = gen.fmt_args(fmts)
    below = [f for f in gen.tree_files(tree) if not root or f.startswith(root + "/")]
    below_dirs = [d for d in gen.tree_dirs(tree) if (not root or d.startswith(root + "/"))]
    if below and rng.random() < weights.get("sf", 0.2):
        k = rng.randint(1, min(2, len(below)))
        picks = rng.sample(below, k)
        hidden = [f for f in below if any(f.startswith(h + "/") for h in state.get("hidden", []))]
        if hidden and rng.random() < 0.5:
            picks = [rng.choice(hidden)]  # a file of a nested history that this history's patterns hide
        pairs = [lt for lt in state.get("links", []) if lt[0] in below and lt[1] in below]
        if pairs and rng.random() < 0.6:
            picks = list(rng.choice(pairs))  # both names of one inode in the same call
            rng.shuffle(picks)
        if below_dirs and rng.random() < 0.3:
            d = rng.choice(below_dirs)
            inside = [f for f in below if f.startswith(d + "/")]
            if inside and rng.random() < 0.35:
                # overlapping arguments: a folder and, once more, a file inside it
                picks = [d, rng.choice(inside)]
                rng.shuffle(picks)
            else:
                picks = [p for p in picks if not p.startswith(d + "/")] + [d]
        elif rng.random() < 0.08:
            picks = picks + [picks[0]]  # the same file named twice
        for p in picks:
            args += ["-sf", _spell(rng, "@R/" + p, weights)]
    else:
        if rng.random() < weights.get("n", 0.12):
            args.append("-n")
        if rng.random() < weights.get("dr", 0.1):
            args.append("-dr")
        if rng.random() < weights.get("i", 0.15):
            for _ in range(rng.randint(1, 2)):
                args += ["-i", rng.choice(PATTERNS)]
            nested_below = [n for n in state["nested"] if n != root and (not root or n.startswith(root + "/"))]
            if nested_below and rng.random() < 0.4:
                # a pattern that hides a nested history (its folder or an ancestor folder) from this history
                n = rng.choice(nested_below)
                rel = n[len(root) + 1:] if root else n
                args[-1] = rng.choice([os.path.basename(rel), rel.split("/")[0], "/" + rel, os.path.basename(rel) + "/"])
                state.setdefault("hidden", []).append(n)
        if rng.random() < weights.get("ii", 0.05):
            args += ["-ii", "@M/patterns.txt"]
    if rng.random() < weights.get("creator", 0.2):
        args += _creator_args(rng)
    if rng.random() < 0.2:
        args.append("-v")
    ra = scen.root_arg(root)
    if rng.random() < weights.get("spelling", 0.06):
        ra += rng.choice(["/", "//", "/."])
    return scen.cmd("create", ra, *args)


def _spell(rng, token, weights):
    """legal but non-canonical spellings of a path below the root: doubled separators, './', 'x/../x'"""
    if rng.random() >= weights.get("spelling", 0.06) * 2:
        return token
    head, rest = token[:2], token[3:]
    k = rng.randrange(3)
    if k == 0:
        return head + "//" + rest
    if k == 1:
        return head + "/./" + rest
    first = rest.split("/")[0]
    return head + "/" + first + "/../" + rest if "/" in rest else head + "/./" + rest


def gen_readonly(rng, state):
    tree = state["tree"]
    files = gen.tree_files(tree)
    root = rng.choice([""] + state["nested"]) if rng.random() < 0.25 else ""
    ra = scen.root_arg(root)
    k = rng.randrange(12)
    if k == 0:
        return scen.cmd("verify", ra)
    if k == 1 and files:
        return scen.cmd("verify", "@R", "-sf", rng.choice(files))
    if k == 2:
        return scen.cmd("verify", ra, "-dh")
    if k == 3:
        return scen.cmd("verify", ra, "-dh", "-co", "-h", rng.choice(observe.FORMATS))
    if k == 4:
        return scen.cmd("diff", ra)
    if k == 5:
        return scen.cmd("info", ra)
    if k == 6:
        return scen.cmd("info", ra, "-v")
    if k == 7 and files:
        return scen.cmd("info", "-sf", "@R/" + rng.choice(files))
    if k == 8 and files:
        return scen.cmd("hash", "@R/" + rng.choice(files), "-h", rng.choice(observe.FORMATS))
    if k == 9:
        return scen.cmd("xsd-schema-check", "@MANIFEST", "-xsd", os.path.join(core.REPO, "xsd", "ASCMHL.xsd"))
    if k == 10:
        return scen.cmd("xsd-schema-check", "@CHAIN", "-df", "-xsd",
                        os.path.join(core.REPO, "xsd", "ASCMHLDirectory__combined.xsd"))
    if k == 11:
        return scen.cmd("verify", ra, "-v", "-i", rng.choice(PATTERNS))
    return scen.cmd("verify", ra)


def gen_edit_any(rng, state):
    tree = state["tree"]
    orig = state.setdefault("orig", {})
    dirty = state.setdefault("dirty", set())
    if dirty and rng.random() < 0.3:
        # bring a removed / altered file back to exactly its original state
        f = sorted(dirty)[rng.randrange(len(dirty))]
        dirty.discard(f)
        if f in orig and os.path.dirname(f) in [""] + gen.tree_dirs(tree):
            tree[f] = orig[f]
            op = {"op": "write", "path": f, "c": orig[f].get("c"), "fault": "restore_content"}
            if orig[f].get("m") is not None:
                op["m"] = orig[f]["m"]
            return op
    e = _gen_edit_any(rng, state)
    if e and e.get("op") in ("flip", "rewrite", "append", "truncate", "remove"):
        f = e["path"]
        src = tree.get(f) or state.get("_last_removed")
        if f not in orig and src is not None and src.get("t") == "f":
            orig[f] = src
        if f in orig:
            dirty.add(f)
    return e


def _gen_edit_any(rng, state):
    tree = state["tree"]
    k = rng.random()
    if k < 0.75:
        before = dict(tree)
        e = scen.gen_edit(rng, tree)
        if e and e.get("op") == "remove":
            state["_last_removed"] = before.get(e["path"])
        return e
    files = gen.tree_files(tree)
    dirs = gen.tree_dirs(tree)
    if k < 0.80 and dirs and rng.random() < 0.5:
        # rename a whole folder in place (not a nested history root, nothing nested inside it)
        cands = [d for d in dirs if not any(n == d or n.startswith(d + "/") or d.startswith(n + "/") for n in state["nested"])]
        if cands:
            src = rng.choice(cands)
            dst = os.path.join(os.path.dirname(src), "rendir_%d" % rng.randrange(99))
            if dst not in tree:
                for key in [x for x in list(tree) if x == src or x.startswith(src + "/")]:
                    tree[dst + key[len(src):]] = tree.pop(key)
                return {"op": "rename", "src": src, "dst": dst, "fault": "rename_dir"}
    if k < 0.85 and files:
        src = rng.choice(files)
        parent = rng.choice([""] + dirs)
        name = rng.choice(["renamed.dat", "moved 1", os.path.basename(src), "r2.mov"])
        dst = f"{parent}/{name}" if parent else name
        if dst in tree or dst == src:
            return None
        tree[dst] = tree.pop(src)
        return {"op": "rename", "src": src, "dst": dst, "fault": "rename_file"}
    if k < 0.95:
        parent = rng.choice([""] + dirs)
        name = rng.choice(["newdir", "nd2", "E"])
        rel = f"{parent}/{name}" if parent else name
        if rel in tree:
            return None
        tree[rel] = {"t": "d"}
        return {"op": "mkdir", "path": rel, "fault": "add_dir"}
    empties = [d for d in dirs if not any(x.startswith(d + "/") for x in tree) and d not in state["nested"]]
    if empties:
        d = rng.choice(empties)
        del tree[d]
        return {"op": "rmdir", "path": d, "fault": "remove_empty_dir"}
    return None


def generate(rng, tier, weights=None, max_ops=None, hostile=0.2):
    weights = weights or {}
    env = gen.gen_env(rng)
    tree = gen.gen_tree(rng, max_entries=weights.get("max_entries", 10), max_depth=3, hostile=hostile)
    if rng.random() < weights.get("twins", 0.06):
        # two canonically equivalent (NFC / NFD) names side by side
        parent = rng.choice([""] + gen.tree_dirs(tree))
        pre = parent + "/" if parent else ""
        for n in rng.choice([("caf\u00e9.txt", "cafe\u0301.txt"), ("\u00c5.dat", "\u212b.dat")]):
            tree.setdefault(pre + n, {"t": "f", "c": gen.unique_content(rng)})
    if rng.random() < weights.get("bigdir", 0.08):
        big = rng.choice([""] + gen.tree_dirs(tree))
        for i in range(rng.randint(11, 18)):
            tree[(big + "/" if big else "") + f"many{i:02d}.dat"] = {"t": "f", "c": gen.unique_content(rng, 4)}
    links = []
    if rng.random() < weights.get("hardlinks", 0.0):
        # second names (hard links) for files of the tree, as left by `cp -l` or rsync --link-dest
        for _ in range(rng.randint(1, 2)):
            cands = [f for f in gen.tree_files(tree) if tree[f]["t"] == "f"]
            if not cands:
                break
            target = rng.choice(cands)
            parent = rng.choice([""] + gen.tree_dirs(tree))
            rel = (parent + "/" if parent else "") + rng.choice(["best_take.mov", "hl_copy.bin", "0link", "zlink.dat"])
            if rel not in tree:
                tree[rel] = {"t": "h", "to": target}
                links.append((rel, target))
    env["tree"] = tree
    state = {"tree": dict(tree), "nested": [], "links": links}
    ops = []
    if rng.random() < weights.get("ii", 0.05) * 4 + 0.05:
        lines = [rng.choice(PATTERNS) for _ in range(rng.randint(1, 3))]
        text = "\n".join(lines + ([""] if rng.random() < 0.5 else [])) + "\n"
        ops.append({"op": "write", "path": "@M/patterns.txt", "c": {"text": text}})
    # nested histories: created on sub-directories before/after the outer root
    if rng.random() < weights.get("nested", 0.45):
        state["nested"] = scen.subroots_of(tree, rng, 3)
        if rng.random() < 0.12:
            # a chain of four histories: root > A > A/B > A/B/C
            for d, f in (("A", "A/a.bin"), ("A/B", "A/B/b.bin"), ("A/B/C", "A/B/C/c.bin")):
                tree.setdefault(d, {"t": "d"})
                tree.setdefault(f, {"t": "f", "c": gen.unique_content(rng)})
            state["tree"] = dict(tree)
            state["nested"] = sorted(set(state["nested"]) | {"A", "A/B", "A/B/C"})
        if state["nested"] and rng.random() < 0.3:
            # siblings whose names merely START with the name of a nested history folder (N_proxy/, N.txt, "N 2")
            n = rng.choice(state["nested"])
            for suffix, is_dir in rng.sample([("_proxy", True), (".txt", False), (" 2", True), ("-B", True), ("x", False)], 2):
                rel = n + suffix
                if rel in tree:
                    continue
                if is_dir:
                    tree[rel] = {"t": "d"}
                    tree[rel + "/p.bin"] = {"t": "f", "c": gen.unique_content(rng)}
                else:
                    tree[rel] = {"t": "f", "c": gen.unique_content(rng)}
            state["tree"] = dict(tree)
        if rng.random() < 0.25:
            # a nested history that later generations of the parent may ignore completely (-i skipme)
            tree.setdefault("skipme", {"t": "d"})
            tree.setdefault("skipme/s.bin", {"t": "f", "c": gen.unique_content(rng)})
            state["tree"] = dict(tree)
            state["nested"] = sorted(set(state["nested"]) | {"skipme"})
        if rng.random() < 0.2:
            # sibling histories whose folders share a base name (P1/Clips, P2/Clips): same manifest names in one run
            for parent in ("P1", "P2"):
                tree.setdefault(parent, {"t": "d"})
                tree.setdefault(parent + "/Clips", {"t": "d"})
                tree.setdefault(parent + "/Clips/c.mov", {"t": "f", "c": gen.unique_content(rng)})
            state["tree"] = dict(tree)
            state["nested"] = sorted(set(state["nested"]) | {"P1/Clips", "P2/Clips"})
    pending = list(state["nested"])
    rng.shuffle(pending)
    n_ops = max_ops or rng.randint(3, 9 if tier == "quick" else 12)
    if max_ops is None and rng.random() < weights.get("long", 0.03):
        n_ops = rng.randint(16, 22)  # long runs: histories with more than nine generations
    n_creates = 0
    for i in range(n_ops):
        if pending and rng.random() < 0.5:
            sub = pending.pop()
            ops.append(scen.cmd("create", scen.root_arg(sub), *gen.fmt_args(gen.pick_formats(rng, 1, 2))))
            n_creates += 1
            continue
        r = rng.random()
        if r < weights.get("p_create", 0.4) or n_creates == 0:
            ops.append(gen_create(rng, state, weights))
            n_creates += 1
        elif r < weights.get("p_create", 0.4) + weights.get("p_edit", 0.2):
            e = gen_edit_any(rng, state)
            if e:
                ops.append(e)
        elif r < weights.get("p_create", 0.4) + weights.get("p_edit", 0.2) + weights.get("p_ro", 0.2):
            ops.append(gen_readonly(rng, state))
        elif r < 0.92:
            ops.append(scen.gen_advance(rng) if rng.random() < 0.9 else {"op": "step_back", "us": rng.choice([1_000_000, 3_600_000_000, 90_000_000])})
        else:
            dest = rng.choice(["@S/out", "@M/flat", "@S/out/deeper"])
            fl = ["flatten", "@R", dest]
            if rng.random() < 0.3:
                fl += _creator_args(rng)
            ops.append(scen.cmd(*fl))
    if rng.random() < weights.get("session", 0.15):
        # library-client use: all commands of the run execute in ONE long-lived simulated process, so module-level
        # state of the code under test survives from one command to the next (as in the project's own pytest runs)
        env["process_model"] = "session"
    return {"world": env, "ops": ops}


def resolve_dynamic(world, op):
    """replace @MANIFEST / @CHAIN tokens; returns None if not resolvable"""
    if not scen.is_cmd(op):
        return op
    argv = []
    for a in op["argv"]:
        if a == "@MANIFEST":
            d = os.path.join(world.root, "ascmhl")
            names = sorted(n for n in (core.R_listdir(d) if os.path.isdir(d) else []) if n.endswith(".mhl"))
            if not names:
                return None
            a = os.path.join(d, names[-1])
        elif a == "@CHAIN":
            a = os.path.join(world.root, "ascmhl", "ascmhl_chain.xml")
            if not os.path.exists(a):
                return None
        argv.append(a)
    o = dict(op)
    o["argv"] = argv
    return o


class Step:
    """what a monitor gets to see for one executed operation"""

    __slots__ = ("index", "op", "res", "fired", "pre", "post", "pre_asc", "post_asc", "world")


def run(sc, ctx, monitor, final=None, want_asc=True):
    w = core.World(sc["world"], ctx.subdir("main"))
    steps = []
    for i, op in enumerate(sc["ops"]):
        op2 = resolve_dynamic(w, op)
        if op2 is None:
            continue
        st = Step()
        st.index, st.op, st.world = i, op2, w
        is_c = scen.is_cmd(op2)
        if is_c:
            st.pre = core.snapshot(w.sandbox)
            st.pre_asc = scen.all_ascmhl_files(w.sandbox) if want_asc else None
        res, fired = scen.run_op(w, op2)
        st.res, st.fired = res, fired
        ctx.steps += 1
        if is_c:
            st.post = core.snapshot(w.sandbox)
            st.post_asc = scen.all_ascmhl_files(w.sandbox) if want_asc else None
            ctx.note("cmd", [a.replace(w.sandbox, "<SB>") if isinstance(a, str) else a for a in op2["argv"]],
                     res.outcome, [(e[1], e[2], e[3]) for e in res.effects])
            ctx.evaluations += 1
            monitor(ctx, st)
        else:
            ctx.note("env", op2, fired)
        steps.append(st)
    if final:
        final(ctx, w, steps)
    ctx.absorb_world(w)
    ctx.sample = [o["argv"] if scen.is_cmd(o) else o for o in sc["ops"]][:8]
    return w, steps


def shrink_candidates(sc):
    for ops in ddmin_list(sc["ops"], 1):
        c = dict(sc)
        c["ops"] = ops
        yield c
    protected = set()
    for o in sc["ops"]:
        if scen.is_cmd(o):
            for a in o["argv"]:
                if isinstance(a, str) and a.startswith("@R/"):
                    protected.add(a[3:])
                elif isinstance(a, str) and not a.startswith("@") and not a.startswith("-"):
                    protected.add(a)
        else:
            for key in ("path", "src", "dst"):
                if key in o:
                    protected.add(o[key])
    for tree in gen.shrink_tree_candidates(sc["world"]["tree"], protected):
        c = dict(sc)
        c["world"] = dict(sc["world"])
        c["world"]["tree"] = tree
        yield c
    for key, val in (("tz", "UTC0"), ("enum_profile", "sorted"), ("read_profile", "full"), ("clock_profile", "calm"),
                     ("wbuf", 8192), ("rootname", "root"), ("process_model", "fork")):
        if sc["world"].get(key) != val:
            c = dict(sc)
            c["world"] = dict(sc["world"])
            c["world"][key] = val
            yield c
    # drop options from commands
    for i, o in enumerate(sc["ops"]):
        if scen.is_cmd(o) and len(o["argv"]) > 2:
            argv = o["argv"]
            for j in range(2, len(argv)):
                if argv[j].startswith("-") and argv[j] not in ("-sf",):
                    takes = j + 1 < len(argv) and not argv[j + 1].startswith("-") and argv[j] not in (
                        "-n", "-dr", "-v", "-dh", "-co", "-ro", "-df")
                    new = argv[:j] + argv[j + (2 if takes else 1):]
                    if argv[0] == "create" and "-h" not in new and "-h" in argv:
                        pass
                    c = dict(sc)
                    c["ops"] = sc["ops"][:i] + [dict(o, argv=new)] + sc["ops"][i + 1:]
                    yield c
