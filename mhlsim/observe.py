"""mhlsim.observe -- independent observers and the reference model.  Nothing here calls ascmhl code."""

import hashlib
import os
import re
import xml.etree.ElementTree as ET

import xxhash

from . import core

FORMATS = ["md5", "sha1", "xxh128", "xxh3", "xxh64", "c4"]
ALL_FORMATS = FORMATS + ["xxh32"]
HEXLEN = {"md5": 32, "sha1": 40, "xxh32": 8, "xxh64": 16, "xxh3": 16, "xxh128": 32}
NS = "{urn:ASC:MHL:v2.0}"
NSD = "{urn:ASC:MHL:DIRECTORY:v2.0}"
C4_ALPHABET = "123456789ABCDEFGHJKLMNPQRSTUVWXYZabcdefghijkmnopqrstuvwxyz"
_C4_INDEX = {c: i for i, c in enumerate(C4_ALPHABET)}


# --- digests -------------------------------------------------------------------------------------------------


def c4_encode(raw64):
    n = int.from_bytes(raw64, "big")
    digits = []
    while n:
        n, r = divmod(n, 58)
        digits.append(C4_ALPHABET[r])
    return "c4" + "".join(reversed(digits)).rjust(88, "1")


def c4_decode(s):
    if len(s) != 90 or not s.startswith("c4"):
        raise ValueError("not a c4 id")
    n = 0
    for ch in s[2:]:
        n = n * 58 + _C4_INDEX[ch]
    return n.to_bytes(64, "big")


def _new(fmt):
    if fmt == "md5":
        return hashlib.md5()
    if fmt == "sha1":
        return hashlib.sha1()
    if fmt == "c4":
        return hashlib.sha512()
    if fmt == "xxh32":
        return xxhash.xxh32()
    if fmt == "xxh64":
        return xxhash.xxh64()
    if fmt == "xxh3":
        return xxhash.xxh3_64()
    if fmt == "xxh128":
        return xxhash.xxh3_128()
    raise ValueError(fmt)


def digest_bytes(data, fmt):
    hh = _new(fmt)
    hh.update(data)
    if fmt == "c4":
        return c4_encode(hh.digest())
    return hh.hexdigest()


def raw_of(digest_str, fmt):
    if fmt == "c4":
        return c4_decode(digest_str)
    return bytes.fromhex(digest_str)


def read_bytes(path):
    fd = os.open(path, os.O_RDONLY)
    try:
        chunks = []
        while True:
            b = os.read(fd, 1 << 22)
            if not b:
                break
            chunks.append(b)
        return b"".join(chunks)
    finally:
        os.close(fd)


def digest_file(path, fmt):
    return digest_bytes(read_bytes(path), fmt)


def canonical_form_ok(digest_str, fmt):
    if not isinstance(digest_str, str):
        return False
    if fmt == "c4":
        return len(digest_str) == 90 and digest_str.startswith("c4") and all(c in _C4_INDEX for c in digest_str[2:])
    return len(digest_str) == HEXLEN[fmt] and re.fullmatch(r"[0-9a-f]+", digest_str) is not None


# --- directory hashes (reference definition) ---------------------------------------------------------------------


def hash_of_list(digest_strs, fmt):
    hh = _new(fmt)
    for d in sorted(digest_strs):
        hh.update(raw_of(d, fmt))
    return c4_encode(hh.digest()) if fmt == "c4" else hh.hexdigest()


def dir_hashes(path, fmt, is_ignored, memo=None, file_digest=None):
    """-> (content, structure) of directory `path` over non-ignored entries, recursively.

    is_ignored(abs_path, is_dir) -> bool.  memo: dict abs dir -> (content, structure) filled for every dir.
    """
    contents, structs = [], []
    for name in sorted(core.R_listdir(path)):
        p = os.path.join(path, name)
        isd = os.path.isdir(p)
        if is_ignored(p, isd):
            continue
        if isd and not os.path.islink(p):
            c, s = dir_hashes(p, fmt, is_ignored, memo, file_digest)
            contents.append(c)
            structs.append(digest_bytes(name.encode("utf-8") + raw_of(s, fmt), fmt))
        elif isd:
            continue
        else:
            d = file_digest(p, fmt) if file_digest else digest_file(p, fmt)
            contents.append(d)
            structs.append(digest_bytes(name.encode("utf-8") + raw_of(d, fmt), fmt))
    res = (hash_of_list(contents, fmt), hash_of_list(structs, fmt))
    if memo is not None:
        memo[path] = res
    return res


# --- XML readers (expat via ElementTree) -------------------------------------------------------------------------


def _t(el):
    return el.text if el is not None else None


def read_manifest(path):
    """independent reading of a manifest into plain dicts; raises on malformed XML"""
    return read_manifest_root(ET.parse(path).getroot(), path)


def read_manifest_bytes(data, path=None):
    return read_manifest_root(ET.fromstring(data), path)


def read_chain_bytes(data):
    return _chain_from_root(ET.fromstring(data))


def read_manifest_root(root, path=None):
    if root.tag != NS + "hashlist":
        raise ValueError(f"root element {root.tag}")
    out = {"path": path, "version": root.attrib.get("version")}
    ci = root.find(NS + "creatorinfo")
    c = {"authors": []}
    if ci is not None:
        c["creationdate"] = _t(ci.find(NS + "creationdate"))
        c["hostname"] = _t(ci.find(NS + "hostname"))
        tool = ci.find(NS + "tool")
        c["tool"] = _t(tool)
        c["toolversion"] = tool.attrib.get("version") if tool is not None else None
        for a in ci.findall(NS + "author"):
            c["authors"].append({"name": a.text, "email": a.attrib.get("email"), "phone": a.attrib.get("phone"),
                                 "role": a.attrib.get("role")})
        c["location"] = _t(ci.find(NS + "location"))
        c["comment"] = _t(ci.find(NS + "comment"))
    out["creatorinfo"] = c
    pi = root.find(NS + "processinfo")
    out["process"] = None
    out["roothash"] = None
    out["patterns"] = []
    out["has_ignore"] = False
    if pi is not None:
        out["process"] = _t(pi.find(NS + "process"))
        rh = pi.find(NS + "roothash")
        if rh is not None:
            out["roothash"] = _dir_entries(rh)
        ig = pi.find(NS + "ignore")
        if ig is not None:
            out["has_ignore"] = True
            out["patterns"] = [p.text for p in ig.findall(NS + "pattern")]
    files, dirs = [], []
    order = []
    hs = root.find(NS + "hashes")
    out["has_hashes_element"] = hs is not None
    if hs is not None:
        for el in hs:
            tag = el.tag[len(NS):] if el.tag.startswith(NS) else el.tag
            pe = el.find(NS + "path")
            rec = {
                "path": _t(pe),
                "size": pe.attrib.get("size") if pe is not None else None,
                "lmd": pe.attrib.get("lastmodificationdate") if pe is not None else None,
                "previousPath": _t(el.find(NS + "previousPath")),
            }
            if tag == "hash":
                rec["kind"] = "file"
                rec["entries"] = []
                for ch in el:
                    ctag = ch.tag[len(NS):] if ch.tag.startswith(NS) else ch.tag
                    if ctag in ALL_FORMATS:
                        rec["entries"].append({"fmt": ctag, "digest": ch.text, "action": ch.attrib.get("action"),
                                               "hashdate": ch.attrib.get("hashdate")})
                files.append(rec)
            elif tag == "directoryhash":
                rec["kind"] = "dir"
                rec.update(_dir_entries(el))
                dirs.append(rec)
            else:
                rec["kind"] = tag
            order.append(rec)
    out["files"] = files
    out["dirs"] = dirs
    out["records"] = order
    refs = []
    rs = root.find(NS + "references")
    if rs is not None:
        for r in rs.findall(NS + "hashlistreference"):
            refs.append({"path": _t(r.find(NS + "path")), "c4": _t(r.find(NS + "c4"))})
    out["references"] = refs
    return out


def _dir_entries(el):
    res = {"content": {}, "structure": {}, "content_attrs": {}, "structure_attrs": {}}
    for part in ("content", "structure"):
        pe = el.find(NS + part)
        if pe is not None:
            for ch in pe:
                ctag = ch.tag[len(NS):] if ch.tag.startswith(NS) else ch.tag
                res[part][ctag] = ch.text
                res[part + "_attrs"][ctag] = dict(ch.attrib)
    return res


def read_chain(path):
    return _chain_from_root(ET.parse(path).getroot())


def _chain_from_root(root):
    if root.tag != NSD + "ascmhldirectory":
        raise ValueError(f"root element {root.tag}")
    out = []
    for hl in root.findall(NSD + "hashlist"):
        ent = {"seq": hl.attrib.get("sequencenr"), "path": _t(hl.find(NSD + "path")), "c4": _t(hl.find(NSD + "c4"))}
        out.append(ent)
    return out


# --- schema validation -----------------------------------------------------------------------------------------

_XSD = {}


def xsd(name):
    """name: 'manifest' | 'directory'"""
    if name not in _XSD:
        from lxml import etree

        fn = {"manifest": "ASCMHL.xsd", "directory": "ASCMHLDirectory__combined.xsd"}[name]
        _XSD[name] = etree.XMLSchema(etree.parse(os.path.join(core.REPO, "xsd", fn)))
    return _XSD[name]


def xsd_validate(path, name):
    """-> None if valid else first error message"""
    from lxml import etree

    schema = xsd(name)
    try:
        with core.R_open(path, "rb") as f:
            doc = etree.parse(f)
    except etree.XMLSyntaxError as e:
        return f"not well-formed: {e}"
    if schema.validate(doc):
        return None
    err = schema.error_log.last_error
    return str(err.message) if err is not None else "invalid"


# --- history model -----------------------------------------------------------------------------------------------

MANIFEST_NAME_RE = re.compile(r"^(\d{4,})_(.+)_(\d{4}-\d{2}-\d{2}_\d{6}Z)\.mhl$", re.S)
LOADER_NAME_RE = re.compile(r"^(\d{4,})(?:_(.+))?$", re.S)


def find_histories(root):
    """all history roots (dirs that contain an 'ascmhl' directory) at or below root, top-down"""
    res = []
    for d, subs, files in os.walk(root):
        subs.sort()
        if "ascmhl" in subs:
            res.append(d)
            subs.remove("ascmhl")
    return res


def loader_visible_manifests(ascmhl_dir):
    """file names in the ascmhl folder that the tool's loader would parse as generations -> {name: number}"""
    out = {}
    if not os.path.isdir(ascmhl_dir):
        return out
    for name in core.R_listdir(ascmhl_dir):
        if name.startswith("._") and len(name) > 2:
            continue
        if not name.endswith(".mhl"):
            continue
        m = LOADER_NAME_RE.match(name[:-4])
        if m:
            out[name] = int(m.group(1))
    return out


class HistoryView:
    """independent view of one history folder (one level; children are separate views)"""

    def __init__(self, root):
        self.root = root
        self.ascmhl = os.path.join(root, "ascmhl")
        self.chain_path = os.path.join(self.ascmhl, "ascmhl_chain.xml")
        self.error = None
        self.chain = []
        self.generations = []  # [(number, filename, manifest dict)] ascending
        try:
            if os.path.exists(self.chain_path):
                self.chain = read_chain(self.chain_path)
            names = loader_visible_manifests(self.ascmhl)
            for name, num in sorted(names.items(), key=lambda kv: (kv[1], kv[0])):
                self.generations.append((num, name, read_manifest(os.path.join(self.ascmhl, name))))
        except (ET.ParseError, ValueError, OSError, LookupError) as e:  # (LookupError: a damaged encoding name)
            self.error = f"{type(e).__name__}: {e}"

    def numbers(self):
        return [g[0] for g in self.generations]

    def latest_patterns(self):
        if not self.generations:
            return None
        return list(self.generations[-1][2]["patterns"])

    def accumulated_patterns(self):
        """every pattern of every generation, first occurrence order (== latest_patterns() when patterns accumulate)"""
        if not self.generations:
            return None
        out = []
        for g in self.generations:
            for p in g[2]["patterns"]:
                if p not in out:
                    out.append(p)
        return out

    def file_records(self):
        """{path: [(gen_number, record)]} over all generations"""
        out = {}
        for num, _, m in self.generations:
            for r in m["files"]:
                out.setdefault(r["path"], []).append((num, r))
        return out

    def earliest_digest(self, path, fmt):
        for num, _, m in self.generations:
            for r in m["files"]:
                if r["path"] == path:
                    for e in r["entries"]:
                        if e["fmt"] == fmt:
                            return e["digest"]
        return None

    def recorded_formats(self, path):
        out = []
        for num, _, m in self.generations:
            for r in m["files"]:
                if r["path"] == path:
                    for e in r["entries"]:
                        if e["fmt"] not in out:
                            out.append(e["fmt"])
        return out


def deepest_history_for(path, history_roots):
    """history root (from the list) that is the deepest ancestor-or-self *directory container* of path"""
    best = None
    for hr in history_roots:
        if path == hr or path.startswith(hr + os.sep):
            if best is None or len(hr) > len(best):
                best = hr
    return best


def default_patterns():
    return [".DS_Store", "ascmhl", "ascmhl/"]


def make_ignore(patterns, root):
    """is_ignored(abs_path, is_dir) using pathspec on the path RELATIVE to root (position independent forms only)"""
    import pathspec

    # the last matching pattern decides; "the ascmhl folders themselves and .DS_Store are always excluded" (C12), so
    # the default patterns are matched last and no negated user pattern can bring them back in
    defaults = default_patterns()
    ordered = [x for x in patterns if x not in defaults] + [x for x in patterns if x in defaults]
    spec = pathspec.PathSpec.from_lines("gitwildmatch", ordered)

    def is_ignored(p, is_dir=False):
        rel = os.path.relpath(p, root)
        if rel == ".":
            return False
        # a 'name/' pattern matches a directory entry itself only when the path carries a trailing slash;
        # the tool passes paths without one, so a directory matched only by 'name/' is still listed (empty).
        return spec.match_file(rel)

    return is_ignored


def walk_nonignored(root, is_ignored):
    """-> (files, dirs) absolute paths of all non-ignored entries below root (pruning ignored dirs)"""
    files, dirs = [], []
    stack = [root]
    while stack:
        d = stack.pop()
        for name in sorted(core.R_listdir(d)):
            p = os.path.join(d, name)
            isd = os.path.isdir(p)
            if is_ignored(p, isd):
                continue
            if isd:
                dirs.append(p)
                if not os.path.islink(p):
                    stack.append(p)
            else:
                files.append(p)
    return sorted(files), sorted(dirs)


def histories_from_files(asc_files):
    """{rel path: bytes} of files inside ascmhl folders -> {history_root_rel: {"gens": [(num, name, manifest)], "chain": [...]}}"""
    out = {}
    for rel in sorted(asc_files):
        folder = os.path.dirname(rel)
        hroot = os.path.dirname(folder)
        h = out.setdefault(hroot, {"gens": [], "chain": None, "error": None})
        name = os.path.basename(rel)
        try:
            if name == "ascmhl_chain.xml":
                h["chain"] = read_chain_bytes(asc_files[rel])
            elif name.endswith(".mhl") and not name.startswith("._"):
                m = LOADER_NAME_RE.match(name[:-4])
                if m:
                    h["gens"].append((int(m.group(1)), name, read_manifest_bytes(asc_files[rel], rel)))
        except (ET.ParseError, ValueError, LookupError) as e:
            h["error"] = f"{rel}: {e}"
    for h in out.values():
        h["gens"].sort(key=lambda g: (g[0], g[1]))
    return out
