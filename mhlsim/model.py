"""mhlsim.model -- reference model of what one `create` step must write (record sets, partition over nested
histories, references, pattern lists).  Built from the independent observers only."""

import os

from . import core, observe


def dedup(seq):
    out = []
    for x in seq:
        if x not in out:
            out.append(x)
    return out


def cli_values(argv, flag, alt=None):
    return [argv[i + 1] for i, a in enumerate(argv) if (a == flag or (alt and a == alt)) and i + 1 < len(argv)]


class CreateAnalysis:
    pass


def analyze_create(st):
    """st: explore.Step of a create command that exited 0/10/11.  Returns CreateAnalysis or None (n/a)."""
    w, argv, res = st.world, st.op["argv"], st.res
    ok_codes = (0, 10, 11)
    if "-sf" not in argv and "--single_file" not in argv:
        # folder mode reports a nested history that vanished (its ascmhl folder is gone while the latest outer generation
        # still references it) with code 30 -- after the generations have been written, like the other findings
        ok_codes += (30,)
    if argv[0] != "create" or res.outcome[0] != "exit" or res.outcome[1] not in ok_codes:
        return None
    A = CreateAnalysis()
    A.argv = argv
    A.exit = res.outcome[1]
    cwd = st.op.get("cwd")
    A.cmd_root = w.abs_of(argv[1], cwd)
    A.sf = [w.abs_of(p, cwd) for p in cli_values(argv, "-sf", "--single_file")]
    A.mode = "sf" if A.sf else "folder"
    A.formats = dedup(cli_values(argv, "-h", "--hash_format")) or ["xxh128"]
    A.nodh = "-n" in argv or "--no_directory_hashes" in argv
    sb = w.sandbox
    pre = observe.histories_from_files(st.pre_asc)
    post = observe.histories_from_files(st.post_asc)
    A.pre = {os.path.join(sb, k): v for k, v in pre.items()}
    A.post = {os.path.join(sb, k): v for k, v in post.items()}
    if any(h["error"] for h in A.pre.values()) or any(h["error"] for h in A.post.values()):
        A.error = [h["error"] for h in list(A.pre.values()) + list(A.post.values()) if h["error"]][0]
        return A
    A.error = None
    # new manifests per history
    A.new = {}  # history root abs -> [(num, name, manifest)]
    for hr, h in A.post.items():
        old_names = {g[1] for g in A.pre.get(hr, {"gens": []})["gens"]}
        fresh = [g for g in h["gens"] if g[1] not in old_names]
        if fresh:
            A.new[hr] = fresh
    # effective ignore patterns
    prev_root = A.pre.get(A.cmd_root)
    # patterns accumulate (C12): the patterns in force are those of ALL earlier generations of the history, which in a
    # history written correctly is the list of its latest generation
    A.prev_patterns_root = dedup([p for g in prev_root["gens"] for p in g[2]["patterns"]]) if prev_root and prev_root["gens"] else None
    cli = cli_values(argv, "-i", "--ignore")
    filep = []
    for f in cli_values(argv, "-ii", "--ignore_spec"):
        fp = w.abs_of(f, cwd)
        try:
            with core.R_open(fp, "r") as fh:
                filep += [line.rstrip("\n") for line in fh if line != "\n"]
        except OSError:
            pass
    A.cli_patterns = dedup(cli + filep)
    base = A.prev_patterns_root if A.prev_patterns_root else observe.default_patterns()
    if A.mode == "folder":
        A.effective = dedup(list(base) + A.cli_patterns)
    else:
        A.effective = observe.default_patterns()
    A.is_ignored = observe.make_ignore(A.effective, A.cmd_root)
    # the tool matches absolute paths: when the root's own name / an ancestor matches a pattern the two readings
    # differ -- that is C13's subject; flag it so that C02/C08/C12 can tell it apart
    A.root_or_ancestor_matches = _root_matches(A.effective, A.cmd_root)
    # traversal over the disk image
    if A.mode == "folder":
        files, dirs = observe.walk_nonignored(A.cmd_root, A.is_ignored)
    else:
        files, dirs = [], []
        for p in A.sf:
            if os.path.isdir(p):
                ig = observe.make_ignore(A.effective, p)
                f2, _ = observe.walk_nonignored(p, ig)
                files += f2
            elif os.path.isfile(p):
                files.append(p)
        files = sorted(set(files))
    A.files, A.dirs = files, dirs
    # histories in scope: the command root plus every pre-existing history root reachable below it
    reachable_dirs = set(dirs)
    below = [hr for hr in A.pre if hr != A.cmd_root and hr.startswith(A.cmd_root + os.sep)]
    if A.mode == "folder":
        A.hist_roots = [A.cmd_root] + sorted(hr for hr in below if hr in reachable_dirs)
    else:
        A.hist_roots = [A.cmd_root] + sorted(below)
    # expected records
    A.exp_files = {hr: set() for hr in A.hist_roots}
    A.exp_dirs = {hr: set() for hr in A.hist_roots}
    for f in files:
        hr = observe.deepest_history_for(f, A.hist_roots)
        A.exp_files[hr].add(os.path.relpath(f, hr))
    if A.mode == "folder":
        for d in dirs:
            owners = [hr for hr in A.hist_roots if d.startswith(hr + os.sep)]
            hr = max(owners, key=len)
            A.exp_dirs[hr].add(os.path.relpath(d, hr))
    # histories expected to receive a generation
    if A.mode == "folder":
        A.exp_generation = set(A.hist_roots)
    else:
        A.exp_generation = set()
        for hr in A.hist_roots:
            if A.exp_files[hr]:
                A.exp_generation.add(hr)
                for anc in A.hist_roots:
                    if hr.startswith(anc + os.sep):
                        A.exp_generation.add(anc)
    return A


def _root_matches(patterns, root):
    import pathspec

    spec = pathspec.PathSpec.from_lines("gitwildmatch", list(patterns))
    return bool(spec.match_file(root + "/x")) or bool(spec.match_file(root))


def parent_history(hr, roots):
    cands = [r for r in roots if hr.startswith(r + os.sep)]
    return max(cands, key=len) if cands else None
