"""mhlsim.gen -- seeded generators for worlds (trees, names, formats, environments)."""

from .observe import FORMATS

SIMPLE_FILES = ["a.txt", "b.bin", "clip01.mov", "clip02.mov", "notes", "IMG_0001.jpg", "sidecar.xml", "z9", "data.csv",
                "readme.md", "A001C003.mxf", "take.wav"]
SIMPLE_DIRS = ["A", "B", "AB", "sub", "Clips", "audio", "x", "d1", "d2", "reel"]
HOSTILE_FILES = [
    "with space.txt", " leading", "trailing ", "amp&ersand.txt", "less<than", "greater>than", "quote\"d.txt",
    "apos'trophe", "]]>cdata.txt", "ünï cödé.txt", "日本語.mov", "é", ".hidden", "#hash#", "100%.txt", "star*.txt",
    "quest?ion", "[bracket].txt", "semi;colon", "écombining", "tab nbsp", "-dash", "--double", "~tilde",
    "back\\slash", "&amp;", "&#10;", "<!--c-->", "a" * 200, "ß" * 100, "Z", "0", "ascmhl.txt", "ascmhl_chain.xml",
    ".DS_Store.bak", "x.mhl", "cafe\u0301.txt", "caf\u00e9.txt", "\u212b.dat", "\u00c5.dat", "\u1112\u1161\u11ab.txt", "\ud55c.txt",
    "[1].bin", "a[b]c.mov", "x{1,2}.txt", "line\u2028sep.txt", "para\u2029graph.mov", "nel\u0085.bin",
    "..notes.txt", "...", ". .", "..a",
]
HOSTILE_DIRS = ["dir with space", "ümlaut", "日本", "d&d", "d<e>", "d'q\"", ".hiddendir", "x" * 120, "A B", "#d", "d]]>",
                "u\u0308ber", "\u00fcber", "Card [A001]", "q?*", "ls\u2028dir", "..cache", "...d"]

TZS = ["UTC0", "CET-1CEST,M3.5.0,M10.5.0/3", "EST5EDT,M3.2.0,M11.1.0", "AEST-10AEDT,M10.1.0,M4.1.0/3",
       "NST3:30NDT,M3.2.0,M11.1.0", "IST-5:30", "<-03>3", "LHST-10:30LHDT-11,M10.1.0,M4.1.0",
       "<+1245>-12:45<+1345>,M9.5.0/2:45,M4.1.0/3:45"]
ENUM_PROFILES = ["sorted", "reverse", "shuffle", "shuffle-stable", "dirs-last-reverse"]
READ_PROFILES = ["full", "halves", "tiny", "ragged"]
WBUFS = [1, 7, 64, 512, 8192, 65536]


def pick_formats(rng, lo=1, hi=3):
    k = rng.randint(lo, min(hi, len(FORMATS)))
    return sorted(rng.sample(FORMATS, k))


def fmt_args(formats):
    out = []
    for f in formats:
        out += ["-h", f]
    return out


def gen_env(rng, hostile_mount=False):
    env = {
        "tz": rng.choice(TZS) if rng.random() < 0.5 else "UTC0",
        "env_seed": rng.getrandbits(32),
        "read_profile": rng.choice(READ_PROFILES),
        "enum_profile": rng.choice(ENUM_PROFILES),
        "clock_profile": rng.choice(["calm", "calm", "ms", "jumpy"]),
        "wbuf": rng.choice(WBUFS),
        "t0": 1_600_000_000_000_000 + rng.randrange(0, 150_000_000) * 1_000_000 + rng.randrange(1_000_000),
        "mount": ["m"],
        # how the root folder is spelled on the command line (legal spellings of the same folder)
        "root_spelling": rng.choice(["abs"] * 12 + ["abs_slash"] * 4 + ["rel", "dot_rel", "dot", "abs_dslash"]),
        "rootname": rng.choice(["root", "Reel A", "R", "card_01", "ünï", "notes", "sub", "d1", "cache", "tmp_root", "x.bak",
                                "Card [A001]", "e\u0301 nfd", "x[1]"]),
    }
    return env


def gen_content(rng, sizes=None):
    sizes = sizes or [0, 1, 2, 5, 17, 64, 200, 1000, 4095, 4096, 4097]
    size = rng.choice(sizes)
    kind = rng.random()
    if size == 0:
        return {"gen": [0, 0]}
    if kind < 0.7:
        return {"gen": [rng.getrandbits(48), size]}
    if kind < 0.85:
        return {"zero": size}
    block = rng.choice(["ab", "xyz\n", "0123456789"])
    return {"rep": [block, size // len(block), size % len(block)]}


def unique_content(rng, size=None):
    """content that is different from every other unique_content() with overwhelming probability"""
    # at least 9 bytes of a 60-bit seeded stream: two such contents (and their same-size rewrites) collide with
    # negligible probability -- 1- and 3-byte contents did collide and produced a false alarm in C17 (soak seed 101)
    size = size if size is not None else rng.choice([9, 16, 33, 100, 257])
    return {"gen": [rng.getrandbits(60), max(9, size)]}


def gen_tree(rng, max_entries=12, max_depth=3, hostile=0.2, empty_dirs=True, unique=False, min_files=1,
             file_pool=None, dir_pool=None, sizes=None):
    """-> {relpath: entry}.  Directories are explicit entries; files carry content specs."""
    tree = {}
    dirs = [""]
    n_entries = rng.randint(max(min_files, 1), max_entries)
    used = {""}
    files = 0
    m_base = 1_500_000_000_000_000

    def pick_name(is_dir):
        pool_h = HOSTILE_DIRS if is_dir else HOSTILE_FILES
        pool_s = (dir_pool or SIMPLE_DIRS) if is_dir else (file_pool or SIMPLE_FILES)
        return rng.choice(pool_h) if rng.random() < hostile else rng.choice(pool_s)

    for _ in range(n_entries):
        parent = rng.choice(dirs)
        depth = parent.count("/") + (1 if parent else 0)
        make_dir = rng.random() < 0.3 and depth < max_depth
        name = pick_name(make_dir)
        rel = f"{parent}/{name}" if parent else name
        if rel in used or len(rel) > 600 or len(name.encode()) > 250:
            continue
        used.add(rel)
        m = m_base + rng.randrange(0, 200_000_000) * 1_000_000 + rng.choice([0, 0, 250_000, 999_999])
        if make_dir:
            tree[rel] = {"t": "d", "m": m}
            dirs.append(rel)
        else:
            tree[rel] = {"t": "f", "c": unique_content(rng) if unique else gen_content(rng, sizes), "m": m}
            files += 1
    while files < min_files:
        name = f"f{files}.dat"
        if name not in used:
            tree[name] = {"t": "f", "c": unique_content(rng), "m": m_base}
            used.add(name)
        files += 1
    if not empty_dirs:
        # give every empty directory one file
        for d in dirs[1:]:
            if not any(k.startswith(d + "/") for k in tree):
                tree[d + "/f.dat"] = {"t": "f", "c": unique_content(rng), "m": m_base}
    return tree


def tree_files(tree):
    return sorted(k for k, v in tree.items() if v["t"] in ("f", "l", "h"))


def tree_dirs(tree):
    return sorted(k for k, v in tree.items() if v["t"] == "d")


def shrink_tree_candidates(tree, protected=()):
    """candidate trees with one entry (and its descendants) removed"""
    keys = sorted(tree, key=lambda k: (-k.count("/"), k))
    for k in keys:
        if k in protected or any(p == k or p.startswith(k + "/") for p in protected):
            continue
        cand = {x: v for x, v in tree.items() if x != k and not x.startswith(k + "/")}
        if cand and len(cand) < len(tree):
            yield cand
