"""mhlsim.core -- the deterministic simulator around the real ascmhl code.

One *world* is a real directory tree on tmpfs (the "disk image") plus a simulated clock, time zone,
enumeration order, read chunking, write buffering and (for C20) network + thread schedule.  Every tool
command runs as "a process": a forked child of the worker in which all seams are patched, so that

  * module-level state of ascmhl cannot leak from one command to the next (as between real processes),
  * a kill is a real ``os._exit`` in the middle of a write -- no ``finally`` block, ``__exit__`` or garbage
    collector gets a chance to tidy up, exactly like SIGKILL,
  * audit hooks / trace functions installed for one command disappear with it.

The parent (worker) process never patches anything: environment faults, snapshots and oracles use the
real ``os`` functions.  Every decision the simulator takes is a pure function of (env_seed, site, counter),
so dropping an operation from a scenario does not shift the decisions of the others (needed for shrinking).
"""

import base64
import builtins
import datetime as _dt_mod
import hashlib
import io
import os
import pickle
import select
import signal
import stat
import sys
import time as _time_mod
import traceback

REPO = os.environ.get("VERIF_REPO", "/repo")
if REPO not in sys.path:
    sys.path.insert(0, REPO)

SANDBOX_PARENT = os.environ.get("VERIF_SANDBOX", "/dev/shm")

# --- real functions, captured before anything is patched -------------------------------------------------
R_open = builtins.open
R_os_open = os.open
R_listdir = os.listdir
R_scandir = os.scandir
R_mkdir = os.mkdir
R_makedirs = os.makedirs
R_replace = os.replace
R_rename = os.rename
R_remove = os.remove
R_unlink = os.unlink
R_rmdir = os.rmdir
R_utime = os.utime
R_chmod = os.chmod
R_truncate = os.truncate
R_fsync = os.fsync
R_symlink = os.symlink
R_link = os.link
R_time = _time_mod.time
R_time_ns = _time_mod.time_ns
R_localtime = _time_mod.localtime
R_gmtime = _time_mod.gmtime
R_strftime = _time_mod.strftime
R_datetime = _dt_mod.datetime


LIVE_SESSIONS = []  # worlds with a long-lived simulated process (ended by the driver after each run)


def end_all_sessions():
    for w in list(LIVE_SESSIONS):
        w.end_session()


class HarnessError(Exception):
    """Something went wrong in the simulator itself (never reported as a VIOLATION)."""


def h64(*parts):
    """stable 64-bit hash of the parts -- the only source of 'randomness' during execution"""
    return int.from_bytes(hashlib.blake2b(repr(parts).encode("utf-8", "surrogatepass"), digest_size=8).digest(), "big")


# --- content specs ---------------------------------------------------------------------------------------


def content_bytes(spec):
    if spec is None:
        return b""
    if "text" in spec:
        return spec["text"].encode("utf-8")
    if "b64" in spec:
        return base64.b64decode(spec["b64"])
    if "gen" in spec:
        seed, size = spec["gen"]
        if size == 0:
            return b""
        return hashlib.shake_256(repr(seed).encode()).digest(size)
    if "zero" in spec:
        return b"\0" * spec["zero"]
    if "rep" in spec:
        block, count, tail = spec["rep"]
        b = block.encode("utf-8")
        return b * count + b[:tail]
    raise HarnessError(f"bad content spec {spec!r}")


# --- clock -------------------------------------------------------------------------------------------------

JITTER_TABLES = {
    # microseconds added on each clock read
    "frozen": [0],
    "calm": [1, 3, 7, 20, 50, 120],
    "ms": [1, 50, 900, 1500, 4000, 20, 9000],
    "jumpy": [1, 10, 300, 2000, 15, 400_000, 7, 1_200_000, 90, 30, 5, 700_000],
}


class Clock:
    def __init__(self, now_us, reads, env_seed, profile, effect_cost_us=20):
        self.now_us = now_us
        self.reads = reads
        self.env_seed = env_seed
        self.table = JITTER_TABLES[profile]
        self.effect_cost_us = effect_cost_us

    wall_offset_us = 0  # steps of the wall clock (NTP corrections, manual changes) that monotonic clocks do not see

    def read(self):
        self.reads += 1
        self.now_us += self.table[h64(self.env_seed, "clk", self.reads) % len(self.table)]
        return self.now_us + self.wall_offset_us

    def effect(self):
        self.now_us += self.effect_cost_us

    read_cost_us = 0

    def io(self):
        self.now_us += self.read_cost_us


# --- snapshots (parent side, real os) ----------------------------------------------------------------------


def snapshot(base, with_hash=True):
    """{relpath: (type, size, sha256, mtime_ns, mode)} of everything below base (base itself is '.')"""
    out = {}
    stack = [base]
    while stack:
        d = stack.pop()
        st = os.lstat(d)
        out[os.path.relpath(d, base)] = ("d", 0, "", st.st_mtime_ns, stat.S_IMODE(st.st_mode))
        for name in sorted(R_listdir(d)):
            p = os.path.join(d, name)
            st = os.lstat(p)
            if stat.S_ISDIR(st.st_mode):
                stack.append(p)
            elif stat.S_ISLNK(st.st_mode):
                out[os.path.relpath(p, base)] = ("l", 0, os.readlink(p), st.st_mtime_ns, 0)
            else:
                dig = ""
                if with_hash:
                    with R_open(p, "rb") as f:
                        dig = hashlib.sha256(f.read()).hexdigest()
                out[os.path.relpath(p, base)] = ("f", st.st_size, dig, st.st_mtime_ns, stat.S_IMODE(st.st_mode))
    return out


def snapshot_diff(a, b, ignore_mtime=False):
    """-> (added, removed, changed) lists of relpaths"""
    added = sorted(k for k in b if k not in a)
    removed = sorted(k for k in a if k not in b)
    changed = []
    for k in a:
        if k in b:
            x, y = a[k], b[k]
            if ignore_mtime:
                x, y = x[:3] + x[4:], y[:3] + y[4:]
            if x != y:
                changed.append(k)
    return added, removed, sorted(changed)


# --- time zones with a history (TZif files written by the simulator; no tz database needed) -------------------


def _nth_weekday(year, month, week, dow):
    """day of month of the `week`-th (1..4, 5 = last) weekday `dow` (0 = Sunday) of year/month"""
    import calendar

    days = [d for d in range(1, calendar.monthrange(year, month)[1] + 1)
            if (calendar.weekday(year, month, d) + 1) % 7 == dow]
    return days[-1] if week >= 5 else days[week - 1]


def tzif_bytes(zone):
    """TZif (version 1) data of a zone {"std": s, "dst": s, "start": [month, week, hour], "end": [month, week, hour],
    "years": [first, last], optional "shift": [year, new_std, new_dst]}: DST from `start` to `end` (local wall clock
    hours, Sundays) in every year of the range, nothing before / after it; with "shift" the standard offset itself
    changes at the start of that year -- i.e. a zone whose past differs from its present, which a POSIX rule string
    cannot express"""
    import calendar
    import struct

    y0, y1 = zone["years"]
    types = []  # (utoff, isdst)

    def tindex(off, isdst):
        if (off, isdst) not in types:
            types.append((off, isdst))
        return types.index((off, isdst))

    std, dst = zone["std"], zone["dst"]
    tindex(std, 0)
    trans = []
    for year in range(y0, y1 + 1):
        if zone.get("shift") and year == zone["shift"][0]:
            std, dst = zone["shift"][1], zone["shift"][2]
            trans.append((calendar.timegm((year, 1, 1, 0, 0, 0)) - std, tindex(std, 0)))
        (sm, sw, sh), (em, ew, eh) = zone["start"], zone["end"]
        t_on = calendar.timegm((year, sm, _nth_weekday(year, sm, sw, 0), sh, 0, 0)) - std
        t_off = calendar.timegm((year, em, _nth_weekday(year, em, ew, 0), eh, 0, 0)) - dst
        trans += [(t_on, tindex(dst, 1)), (t_off, tindex(std, 0))]
    trans.sort()
    abbr = b"STD\0DST\0"
    out = b"TZif" + b"\0" + b"\0" * 15 + struct.pack(">6l", 0, 0, 0, len(trans), len(types), len(abbr))
    out += b"".join(struct.pack(">l", t) for t, _ in trans)
    out += bytes(i for _, i in trans)
    out += b"".join(struct.pack(">lBB", off, isdst, 4 if isdst else 0) for off, isdst in types)
    out += abbr
    return out


def resolve_tz(spec):
    """the value of TZ for a world spec: a POSIX rule string, or ':<file>' for a generated zone (spec["tzif"])"""
    if spec.get("tz") != "TZIF":
        return spec.get("tz", "UTC0")
    data = tzif_bytes(spec["tzif"])
    d = "/dev/shm/mhlsim_zones"
    R_makedirs(d, exist_ok=True)
    p = os.path.join(d, hashlib.sha1(data).hexdigest()[:16] + ".tzif")
    if not os.path.exists(p):
        tmp = p + ".%d" % os.getpid()
        with R_open(tmp, "wb") as f:
            f.write(data)
        R_replace(tmp, p)
    return ":" + p


# --- the world ---------------------------------------------------------------------------------------------


class World:
    """A disk image + simulated environment.  Lives in the worker (parent) process."""

    DEFAULTS = {
        "tz": "UTC0",
        "mount": ["m"],
        "rootname": "root",
        "t0": 1_700_000_000_000_000,  # 2023-11-14T22:13:20Z in microseconds
        "env_seed": 1,
        "read_profile": "full",
        "enum_profile": "sorted",
        "clock_profile": "calm",
        "wbuf": 8192,
        "effect_cost_us": 20,
        "read_cost_us": 0,  # simulated time per read() call on the disk image (I/O throughput)
        "root_spelling": "abs",
    }

    def __init__(self, spec, sandbox):
        self.spec = dict(self.DEFAULTS)
        self.spec.update({k: v for k, v in spec.items() if k != "tree"})
        self.sandbox = sandbox
        self.base = os.path.join(sandbox, "w")
        self.mount = os.path.join(self.base, *self.spec["mount"])
        self.root = os.path.join(self.mount, self.spec["rootname"])
        self.clock_us = self.spec["t0"]
        self.clock_reads = 0
        self.cmd_count = 0
        self.fault_counts = {}
        self.sim_us_total = 0
        if self.spec.get("symlink_mount"):
            # the first mount component is a symbolic link to a real directory (a volume mounted through a link)
            R_makedirs(os.path.join(self.base, "_real"))
            os.symlink("_real", os.path.join(self.base, self.spec["mount"][0]))
        R_makedirs(self.root)
        self.tz_env = resolve_tz(self.spec)
        os.environ["TZ"] = self.tz_env
        _time_mod.tzset()
        self.build_tree(spec.get("tree", {}))

    # -- building
    def abspath(self, rel):
        # "@SELF" inside a relative path stands for the root's own absolute path without the leading separator: the
        # layout `rsync -R` / `cp --parents` leave when a volume is mirrored into itself (<root>/mirror/<root>/...)
        rel = rel.replace("@SELF", self.root.lstrip(os.sep))
        return self.root if rel in (".", "") else os.path.join(self.root, rel)

    def build_tree(self, tree):
        default_m = self.spec["t0"] - 86_400_000_000
        dirs = []
        for rel in sorted(tree):
            ent = tree[rel]
            p = self.abspath(rel)
            if ent["t"] == "d":
                R_makedirs(p, exist_ok=True)
                dirs.append((rel, ent))
            elif ent["t"] in ("l", "h"):
                continue  # symbolic and hard links are created after their targets
            else:
                R_makedirs(os.path.dirname(p), exist_ok=True)
                with R_open(p, "wb") as f:
                    f.write(content_bytes(ent.get("c")))
                self.set_mtime_us(p, ent.get("m", default_m))
        for rel in sorted(tree):
            ent = tree[rel]
            if ent["t"] == "l":
                p = self.abspath(rel)
                R_makedirs(os.path.dirname(p), exist_ok=True)
                os.symlink(ent["to"], p)  # relative to the link's own directory
            elif ent["t"] == "h":
                p = self.abspath(rel)
                R_makedirs(os.path.dirname(p), exist_ok=True)
                if os.path.isfile(self.abspath(ent["to"])):  # (a shrunk tree may have lost the target)
                    os.link(self.abspath(ent["to"]), p)  # a second name for the same inode; "to" is relative to the root
        # directories: stamp every directory below the mount (deepest first) so no kernel time remains
        self.restamp_all_dirs(default_m, {self.abspath(r): e.get("m", default_m) for r, e in dirs})

    def restamp_all_dirs(self, default_m, explicit=None):
        # keys are compared by their real path: the mount may be reached through a symbolic link
        explicit = {os.path.realpath(k): v for k, v in (explicit or {}).items()}
        all_dirs = []
        for d, sub, _ in os.walk(os.path.realpath(self.base)):
            all_dirs.append(d)
        for d in sorted(all_dirs, key=lambda x: -x.count(os.sep)):
            self.set_mtime_us(d, explicit.get(d, default_m))

    @staticmethod
    def set_mtime_us(path, us):
        R_utime(path, ns=(us * 1000, us * 1000))

    # -- clock control from ops
    def advance(self, us):
        self.clock_us += us
        self.sim_us_total += abs(us)

    def count_fault(self, kind, n=1):
        self.fault_counts[kind] = self.fault_counts.get(kind, 0) + n

    # -- running code "as a process"
    def run_cmd(self, argv, cwd=None, kill=None, hooks=None, timeout=60):
        """argv: ['create', '/abs/root', '-h', 'md5'] (first element = command name).  Returns CmdResult."""
        return self.run_child(("cmd", argv), cwd=cwd, kill=kill, hooks=hooks, timeout=timeout)

    def run_call(self, fn_name, args, cwd=None, hooks=None, timeout=60):
        """run a library call 'module:function' with args inside the simulated process"""
        return self.run_child(("call", fn_name, args), cwd=cwd, hooks=hooks, timeout=timeout)

    def _session_exchange(self, job, cwd, kill, timeout):
        """send one job to the world's long-lived simulated process (started on demand); returns raw result bytes"""
        sess = getattr(self, "_session", None)
        if sess is None:
            c_r, c_w = os.pipe()
            r_r, r_w = os.pipe()
            sys.stdout.flush()
            sys.stderr.flush()
            pid = os.fork()
            if pid == 0:
                try:
                    os.close(c_w)
                    os.close(r_r)
                    _session_main(self, c_r, r_w)
                finally:
                    os._exit(97)
            os.close(c_r)
            os.close(r_w)
            sess = self._session = {"pid": pid, "w": c_w, "r": r_r}
            LIVE_SESSIONS.append(self)
        msg = pickle.dumps((_world_state(self), job, cwd, kill))
        os.write(sess["w"], len(msg).to_bytes(8, "big") + msg)
        deadline = R_time() + timeout
        buf = b""
        need = None
        while True:
            left = deadline - R_time()
            if left <= 0:
                self.end_session()
                return None
            r, _, _ = select.select([sess["r"]], [], [], min(left, 5.0))
            if not r:
                continue
            b = os.read(sess["r"], 1 << 20)
            if not b:
                self.end_session()
                return buf[8:] if buf else b""
            buf += b
            if need is None and len(buf) >= 8:
                need = int.from_bytes(buf[:8], "big")
            if need is not None and len(buf) >= 8 + need:
                return buf[8: 8 + need]

    def end_session(self):
        sess = getattr(self, "_session", None)
        if sess is None:
            return
        self._session = None
        for fd in (sess["w"], sess["r"]):
            try:
                os.close(fd)
            except OSError:
                pass
        try:
            os.kill(sess["pid"], signal.SIGKILL)
        except ProcessLookupError:
            pass
        try:
            os.waitpid(sess["pid"], 0)
        except ChildProcessError:
            pass
        if self in LIVE_SESSIONS:
            LIVE_SESSIONS.remove(self)

    def run_child(self, job, cwd=None, kill=None, hooks=None, timeout=60):
        if os.environ.get("TZ") != self.tz_env:  # (another world of the same scenario may live in another zone)
            os.environ["TZ"] = self.tz_env
            _time_mod.tzset()
        if self.spec.get("process_model") == "session" and not hooks and job[0] in ("cmd", "pyfunc"):
            return self._run_in_session(job, cwd, kill, timeout)
        return self._run_forked(job, cwd, kill, hooks, timeout)

    def _run_in_session(self, job, cwd, kill, timeout):
        self.cmd_count += 1
        before = snapshot(self.base, with_hash=False)
        start_us = self.clock_us
        data = self._session_exchange(job, cwd or self.default_cwd(), kill, timeout)
        if data is None:
            res = CmdResult({"outcome": ("hang", None), "stdout": "", "stderr": "", "effects": [], "reads": [],
                             "audit": [], "clock_us": self.clock_us, "clock_reads": self.clock_reads, "extra": {}})
        else:
            if not data:
                raise HarnessError(f"session process died without a result job={job!r}")
            res = CmdResult(pickle.loads(data))
            if res.outcome[0] == "harness":
                raise HarnessError("inside simulated session process: " + str(res.outcome[1]))
            if res.outcome[0] == "abort":
                res.outcome = ("abort", str(res.outcome[1]).replace(self.sandbox, "<SB>"))
            if res.outcome[0] == "killed":
                self.end_session()
        return self._finish_run(res, before, start_us)

    def _finish_run(self, res, before, start_us):
        self.clock_us = max(self.clock_us, res.clock_us)
        self.clock_reads = res.clock_reads
        res.start_us = start_us
        res.end_us = self.clock_us
        self.sim_us_total += res.end_us - start_us
        after = snapshot(self.base, with_hash=False)
        added, removed, changed = snapshot_diff(before, after)
        res.touched = (added, removed, changed)
        for rel in added + changed:
            p = os.path.join(self.base, rel) if rel != "." else self.base
            if os.path.lexists(p) and not os.path.islink(p):
                self.set_mtime_us(p, self.clock_us)
        return res

    def _run_forked(self, job, cwd=None, kill=None, hooks=None, timeout=60):
        self.cmd_count += 1
        before = snapshot(self.base, with_hash=False)
        start_us = self.clock_us
        rfd, wfd = os.pipe()
        sys.stdout.flush()
        sys.stderr.flush()
        pid = os.fork()
        if pid == 0:
            try:
                os.close(rfd)
                _child_main(self, job, cwd or self.default_cwd(), kill, hooks or {}, wfd)
            finally:
                os._exit(97)
        os.close(wfd)
        chunks = []
        deadline = R_time() + timeout
        hung = False
        while True:
            left = deadline - R_time()
            if left <= 0:
                hung = True
                break
            r, _, _ = select.select([rfd], [], [], min(left, 5.0))
            if r:
                b = os.read(rfd, 1 << 20)
                if not b:
                    break
                chunks.append(b)
        os.close(rfd)
        if hung:
            try:
                os.kill(pid, signal.SIGKILL)
            except ProcessLookupError:
                pass
        _, status = os.waitpid(pid, 0)
        if hung:
            res = CmdResult({"outcome": ("hang", None), "stdout": "", "stderr": "", "effects": [], "reads": [],
                             "audit": [], "clock_us": self.clock_us, "clock_reads": self.clock_reads, "extra": {}})
        else:
            data = b"".join(chunks)
            if not data:
                raise HarnessError(f"simulated process died without a result (wait status {status}) job={job!r}")
            try:
                res = CmdResult(pickle.loads(data))
            except Exception as e:  # truncated pickle
                raise HarnessError(f"unreadable result from simulated process: {e!r} status={status}")
            if res.outcome[0] == "harness":
                raise HarnessError("inside simulated process: " + str(res.outcome[1]))
            if res.outcome[0] == "abort":
                res.outcome = ("abort", str(res.outcome[1]).replace(self.sandbox, "<SB>"))
        # mtime hygiene: whatever the command created / touched carries kernel time -> restamp to sim time
        return self._finish_run(res, before, start_us)

    def destroy(self):
        self.end_session()
        import shutil

        shutil.rmtree(self.sandbox, ignore_errors=True)


class CmdResult:
    def __init__(self, d):
        self.outcome = tuple(d["outcome"])  # ('exit', n) | ('killed', k) | ('abort', 'Type: msg') | ('hang', None)
        self.stdout = d["stdout"]
        self.stderr = d["stderr"]
        self.effects = d["effects"]  # [(seq, kind, relpath_to_base, nbytes)]
        self.reads = d["reads"]  # {relpath_to_base: bytes_read}
        self.audit = d["audit"]  # [(event, relpath_to_base, extra)]
        self.clock_us = d["clock_us"]
        self.clock_reads = d["clock_reads"]
        self.extra = d.get("extra", {})
        self.value = d.get("value")
        self.start_us = self.end_us = None
        self.touched = ([], [], [])

    @property
    def exit_code(self):
        return self.outcome[1] if self.outcome[0] == "exit" else None

    @property
    def aborted(self):
        return self.outcome[0] in ("abort", "hang")

    def brief(self):
        k, v = self.outcome
        return f"{k}:{v}" if v is not None else k


# --- child side ------------------------------------------------------------------------------------------------


class _Kill(BaseException):
    pass


class _ChildState:
    pass


CS = None  # child state, only set inside a simulated process


def _rel(path):
    """path relative to the world base, or None if outside"""
    try:
        p = os.fspath(path)
    except TypeError:
        return None
    if isinstance(p, bytes):
        p = os.fsdecode(p)
    if not os.path.isabs(p):
        p = os.path.join(os.getcwd(), p)
    p = os.path.normpath(p)
    b = CS.base
    if p == b:
        return "."
    if p.startswith(b + os.sep):
        return p[len(b) + 1:]
    return None


def _effect(kind, rel, nbytes=0, apply=None, partial=None):
    """register one durable effect; honours the kill specification.

    apply:   callable performing the whole effect
    partial: callable(j) performing the first j bytes only (write effects)
    """
    cs = CS
    seq = len(cs.effects)
    cs.clock.effect()
    k = cs.kill
    hit = False
    if k is not None:
        if "when" in k:
            # kill at the n-th effect of a given kind on a path containing a given text (e.g. the first replace of a
            # manifest), for scenarios that need one particular crash window rather than a sampled one
            wn = k["when"]
            if kind == wn["kind"] and wn.get("contains", "") in rel:
                k["_seen"] = k.get("_seen", 0) + 1
                hit = k["_seen"] == wn.get("nth", 1)
        else:
            hit = k["at"] == seq
    if hit:
        mode = k["mode"]
        if mode == "before":
            cs.effects.append((seq, kind + "!killed-before", rel, 0))
            _die()
        if mode == "partial" and partial is not None and nbytes > 1:
            j = max(1, min(nbytes - 1, int(k.get("bytes", nbytes // 2))))
            partial(j)
            cs.effects.append((seq, kind + "!killed-partial", rel, j))
            _die()
        # 'after', or partial on an effect that cannot be split
        res = apply() if apply else None
        cs.effects.append((seq, kind + "!killed-after", rel, nbytes))
        _die()
    res = apply() if apply else None
    cs.effects.append((seq, kind, rel, nbytes))
    if cs.on_effect:
        cs.on_effect(seq, kind, rel)
    return res


def _die():
    CS.outcome = ("killed", len(CS.effects) - 1)
    _send_result_and_exit()


def _send_result_and_exit():
    _send_result(exit_after=True)


def _send_result(exit_after=True):
    cs = CS
    out = {
        "outcome": cs.outcome,
        "stdout": cs.stdout.getvalue() if hasattr(cs.stdout, "getvalue") else "",
        "stderr": cs.stderr.getvalue() if hasattr(cs.stderr, "getvalue") else "",
        "effects": cs.effects,
        "reads": cs.reads,
        "audit": cs.audit,
        "clock_us": cs.clock.now_us,
        "clock_reads": cs.clock.reads,
        "extra": cs.extra,
        "value": cs.value,
    }
    try:
        data = pickle.dumps(out)
    except Exception as e:
        out["value"] = repr(out.get("value"))
        out["extra"] = {"pickle_error": repr(e)}
        data = pickle.dumps(out)
    if getattr(cs, "session", False):
        data = len(data).to_bytes(8, "big") + data
    view = memoryview(data)
    while view:
        n = os.write(cs.wfd, view)
        view = view[n:]
    if exit_after:
        os._exit(0)


class SimWriteFile:
    """user-space buffered writer whose raw writes are numbered effects (and therefore kill points)"""

    def __init__(self, path, rel, mode, encoding=None, opener=None):
        self.name = path
        self.mode = mode
        self._rel = rel
        self._text = "b" not in mode
        self._encoding = encoding or "utf-8"
        self._buf = bytearray()
        self._cap = CS.wbuf
        self.closed = False
        flags = os.O_WRONLY | os.O_CREAT | os.O_CLOEXEC
        if "a" in mode:
            flags |= os.O_APPEND
            kind = "open-append"
        elif "x" in mode:
            flags |= os.O_EXCL
            kind = "creat-excl"
        elif "+" in mode and "w" not in mode:
            kind = "open-rw"
            flags = os.O_RDWR | os.O_CLOEXEC
        else:
            flags |= os.O_TRUNC
            kind = "creat"
        if opener is not None:
            # open(..., opener=f): f receives the flags the mode implies and decides itself what it passes to the OS
            self._fd = _effect(kind, rel, 0, apply=lambda: opener(path, flags))
        else:
            self._fd = _effect(kind, rel, 0, apply=lambda: R_os_open(path, flags, 0o644))

    def write(self, data):
        if self.closed:
            raise ValueError("write to closed file")
        if self._text:
            if not isinstance(data, str):
                raise TypeError("write() argument must be str")
            data = data.encode(self._encoding)
        else:
            data = bytes(data)
        self._buf += data
        while len(self._buf) >= self._cap:
            self._raw(bytes(self._buf[: self._cap]))
            del self._buf[: self._cap]
        return len(data)

    def writelines(self, lines):
        for line in lines:
            self.write(line)

    def _raw(self, chunk):
        fd = self._fd

        def full():
            v = memoryview(chunk)
            while v:
                n = os.write(fd, v)
                v = v[n:]

        def part(j):
            v = memoryview(chunk)[:j]
            while v:
                n = os.write(fd, v)
                v = v[n:]

        _effect("write", self._rel, len(chunk), apply=full, partial=part)

    def flush(self):
        if self.closed:
            raise ValueError("flush of closed file")
        if self._buf:
            chunk = bytes(self._buf)
            self._buf.clear()
            self._raw(chunk)

    def fileno(self):
        return self._fd

    def tell(self):
        return os.lseek(self._fd, 0, os.SEEK_CUR) + len(self._buf)

    def seek(self, off, whence=0):
        self.flush()
        return os.lseek(self._fd, off, whence)

    def truncate(self, size=None):
        self.flush()
        if size is None:
            size = os.lseek(self._fd, 0, os.SEEK_CUR)
        _effect("ftruncate", self._rel, 0, apply=lambda: os.ftruncate(self._fd, size))
        return size

    def writable(self):
        return True

    def readable(self):
        return "+" in self.mode

    def read(self, n=-1):
        # update modes ("r+b", "w+b", "a+b"): reads see everything written so far
        if "+" not in self.mode:
            raise io.UnsupportedOperation("not readable")
        self.flush()
        chunks = []
        while n is None or n < 0 or n > 0:
            b = os.read(self._fd, 1 << 20 if (n is None or n < 0) else n)
            if not b:
                break
            chunks.append(b)
            if n is not None and n > 0:
                n -= len(b)
        data = b"".join(chunks)
        return data.decode(self._encoding) if self._text else data

    def seekable(self):
        return True

    def close(self):
        if self.closed:
            return
        self.flush()
        self.closed = True
        fd = self._fd
        _effect("close", self._rel, 0, apply=lambda: os.close(fd))

    def __enter__(self):
        return self

    def __exit__(self, *a):
        self.close()
        return False

    def __del__(self):
        # a real BufferedWriter would flush here; a killed process never gets here, a living one may.
        try:
            if not self.closed and CS is not None and CS.outcome is None:
                self.close()
        except BaseException:
            pass


def _maybe_concurrent(rel):
    """another process changes a file while the simulated one is busy: fires once, right after the n-th read() on a
    path containing a given text (spec: {"contains": s, "nth": n, "path": abs, "byte": i, "bit": b})"""
    c = getattr(CS, "concurrent", None)
    if not c or c.get("done") or c.get("contains", "") not in rel:
        return
    c["seen"] = c.get("seen", 0) + 1
    if c["seen"] < c.get("nth", 1):
        return
    c["done"] = True
    try:
        with R_open(c["path"], "rb") as f:
            data = bytearray(f.read())
        if data:
            data[c.get("byte", 0) % len(data)] ^= 1 << (c.get("bit", 0) % 8)
            with R_open(c["path"], "wb") as f:
                f.write(data)
            CS.extra["concurrent_fired"] = 1
    except OSError:
        pass


class SimReadFile:
    """binary reader with simulator-chosen short reads"""

    def __init__(self, path, rel):
        self.name = path
        self.mode = "rb"
        self._rel = rel
        self._f = R_open(path, "rb", buffering=0)
        self._size = os.fstat(self._f.fileno()).st_size
        self._calls = 0
        self.closed = False
        CS.reads.setdefault(rel, 0)
        n = CS.open_counts.get(rel, 0) + 1
        CS.open_counts[rel] = n
        self._opn = n

    def _choose(self, n):
        prof = CS.read_profile
        if prof == "full" or n <= 1:
            return n
        self._calls += 1
        r = h64(CS.env_seed, "rd", self._rel, self._opn, self._calls)
        if prof == "halves":
            return max(1, n // 2)
        if prof == "tiny":
            # keep big files tractable: tiny reads only while the file is small
            if self._size <= 1 << 16:
                return 1 + r % 17
            return max(1, min(n, (1 << 16) + r % (1 << 18)))
        if prof == "ragged":
            sel = r % 4
            if sel == 0:
                return n
            if sel == 1:
                return 1 + (r >> 8) % min(n, 4096)
            if sel == 2:
                return max(1, n - 1 - (r >> 8) % min(n, 7))
            return 1 + (r >> 8) % n
        return n

    def read(self, n=-1):
        if n is None or n < 0:
            data = self._f.readall()
        else:
            want = self._choose(n)
            data = self._f.read(want)
            if want < n and data:
                CS.extra["short_reads"] = CS.extra.get("short_reads", 0) + 1
        CS.reads[self._rel] = CS.reads.get(self._rel, 0) + len(data)
        CS.clock.io()
        _maybe_concurrent(self._rel)
        return data

    def readinto(self, b):
        data = self.read(len(b))
        b[: len(data)] = data
        return len(data)

    def readline(self, limit=-1):
        out = bytearray()
        while True:
            c = self._f.read(1)
            if not c:
                break
            out += c
            if c == b"\n" or (limit and 0 < limit <= len(out)):
                break
        CS.reads[self._rel] = CS.reads.get(self._rel, 0) + len(out)
        return bytes(out)

    def __iter__(self):
        return self

    def __next__(self):
        line = self.readline()
        if not line:
            raise StopIteration
        return line

    def readable(self):
        return True

    def writable(self):
        return False

    def seekable(self):
        return True

    def seek(self, off, whence=0):
        return self._f.seek(off, whence)

    def tell(self):
        return self._f.tell()

    def fileno(self):
        return self._f.fileno()

    def close(self):
        self.closed = True
        self._f.close()

    def __enter__(self):
        return self

    def __exit__(self, *a):
        self.close()
        return False


def _sim_open(file, mode="r", buffering=-1, encoding=None, errors=None, newline=None, closefd=True, opener=None):
    if isinstance(file, int):
        return R_open(file, mode, buffering, encoding, errors, newline, closefd, opener)
    rel = _rel(file)
    if rel is None:
        return R_open(file, mode, buffering, encoding, errors, newline, closefd, opener)
    path = os.fspath(file)
    writing = any(c in mode for c in "wax+")
    if writing:
        return SimWriteFile(path, rel, mode, encoding, opener)
    if opener is not None:
        return R_open(file, mode, buffering, encoding, errors, newline, closefd, opener)
    if "b" in mode:
        return SimReadFile(path, rel)
    # text-mode read (pattern files): real file, counted
    CS.reads.setdefault(rel, 0)
    return R_open(file, mode, buffering, encoding, errors, newline, closefd, opener)


def _order(names, rel, what):
    prof = CS.enum_profile
    names = sorted(names)
    n = CS.enum_counts.get((what, rel), 0) + 1
    CS.enum_counts[(what, rel)] = n
    if prof == "sorted":
        return names
    if prof == "reverse":
        return names[::-1]
    if prof == "dirs-last-reverse":
        return sorted(names, key=lambda x: (h64(CS.env_seed, "dl", x) % 2, x), reverse=True)
    # shuffle: deterministic permutation per directory and call
    if prof == "shuffle-stable":
        keyf = lambda x: h64(CS.env_seed, "en", rel, x)
    else:  # "shuffle": differs from call to call
        keyf = lambda x: h64(CS.env_seed, "en", rel, what, n, x)
    out = sorted(names, key=keyf)
    if out != names:
        CS.extra["enum_permuted"] = CS.extra.get("enum_permuted", 0) + 1
    return out


def _sim_listdir(path="."):
    rel = _rel(path) if not isinstance(path, int) else None
    names = R_listdir(path)
    if rel is None:
        return names
    return _order(names, rel, "listdir")


class _ScandirIter:
    def __init__(self, entries):
        self._it = iter(entries)

    def __iter__(self):
        return self

    def __next__(self):
        return next(self._it)

    def close(self):
        pass

    def __enter__(self):
        return self

    def __exit__(self, *a):
        return False


def _sim_scandir(path="."):
    rel = _rel(path) if not isinstance(path, int) else None
    if rel is None:
        return R_scandir(path)
    with R_scandir(path) as it:
        entries = {e.name: e for e in it}
    return _ScandirIter([entries[n] for n in _order(list(entries), rel, "scandir")])


def _wrap_path_effect(kind, real, nargs=1):
    def wrapper(*args, **kwargs):
        rels = [_rel(a) for a in args[:nargs] if not isinstance(a, int)]
        if not rels or all(r is None for r in rels):
            return real(*args, **kwargs)
        rel = "|".join(r if r is not None else "<outside>" for r in rels)
        return _effect(kind, rel, 0, apply=lambda: real(*args, **kwargs))

    wrapper.__name__ = getattr(real, "__name__", kind)
    return wrapper


def _sim_makedirs(name, mode=0o777, exist_ok=False):
    # decompose into single mkdir effects
    name = os.fspath(name)
    head, tail = os.path.split(name)
    if not tail:
        head, tail = os.path.split(head)
    if head and tail and not os.path.exists(head):
        try:
            _sim_makedirs(head, exist_ok=exist_ok)
        except FileExistsError:
            pass
    try:
        os.mkdir(name, mode)
    except OSError:
        if not exist_ok or not os.path.isdir(name):
            raise


WRITE_FLAGS = os.O_WRONLY | os.O_RDWR | os.O_CREAT | os.O_TRUNC | os.O_APPEND

AUDIT_EVENTS = {
    "os.mkdir": 0, "os.rename": 0, "os.remove": 0, "os.rmdir": 0, "os.utime": 0, "os.chmod": 0, "os.chown": 0,
    "os.truncate": 0, "os.symlink": 1, "os.link": 1, "shutil.rmtree": 0, "shutil.move": 1, "shutil.copyfile": 1,
    "shutil.copytree": 1, "shutil.copymode": 1, "shutil.copystat": 1, "os.removexattr": 0, "os.setxattr": 0,
    "tempfile.mkstemp": 0, "tempfile.mkdtemp": 0,
}


def _audit_hook(event, args):
    cs = CS
    if cs is None or cs.outcome is not None:
        return
    try:
        if event == "open":
            path, mode, flags = args
            if isinstance(path, int) or path is None:
                return
            if flags & WRITE_FLAGS:
                rel = _rel(path)
                if rel is not None:
                    cs.audit.append(("open-write", rel, flags & WRITE_FLAGS))
        elif event in AUDIT_EVENTS:
            for a in args[:2]:
                if isinstance(a, (str, bytes, os.PathLike)):
                    r = _rel(a)
                    if r is not None:
                        cs.audit.append((event, r, 0))
    except Exception:
        pass


def _make_sim_datetime(clock):
    class SimDatetime(R_datetime):
        @classmethod
        def fromtimestamp(cls, t, tz=None):
            # CPython builds subclass instances without the fold flag; take it from the real class so that
            # the repeated hour after a DST switch is represented exactly as in an unpatched process
            d = R_datetime.fromtimestamp(t, tz)
            return cls(d.year, d.month, d.day, d.hour, d.minute, d.second, d.microsecond, d.tzinfo, fold=d.fold)

        @classmethod
        def now(cls, tz=None):
            us = clock.read()
            base = cls.fromtimestamp(us // 1_000_000, tz)
            return base.replace(microsecond=us % 1_000_000)

        @classmethod
        def utcnow(cls):
            us = clock.read()
            base = cls.fromtimestamp(us // 1_000_000, _dt_mod.timezone.utc)
            return base.replace(microsecond=us % 1_000_000, tzinfo=None)

        @classmethod
        def today(cls):
            return cls.now()

    SimDatetime.__name__ = "datetime"
    SimDatetime.__qualname__ = "datetime"
    return SimDatetime


def _install_patches(cs):
    builtins.open = _sim_open
    io.open = _sim_open
    os.listdir = _sim_listdir
    os.scandir = _sim_scandir
    os.mkdir = _wrap_path_effect("mkdir", R_mkdir)
    os.makedirs = _sim_makedirs
    os.replace = _wrap_path_effect("replace", R_replace, 2)
    os.rename = _wrap_path_effect("rename", R_rename, 2)
    os.remove = _wrap_path_effect("remove", R_remove)
    os.unlink = _wrap_path_effect("remove", R_unlink)
    os.rmdir = _wrap_path_effect("rmdir", R_rmdir)
    os.utime = _wrap_path_effect("utime", R_utime)
    os.chmod = _wrap_path_effect("chmod", R_chmod)
    os.truncate = _wrap_path_effect("truncate", R_truncate)
    os.symlink = _wrap_path_effect("symlink", R_symlink, 2)
    os.link = _wrap_path_effect("link", R_link, 2)

    def sim_fsync(fd):
        _effect("fsync", "<fd>", 0, apply=lambda: R_fsync(fd))

    os.fsync = sim_fsync

    clock = cs.clock
    SimDatetime = _make_sim_datetime(clock)
    cs.SimDatetime = SimDatetime
    _dt_mod.datetime = SimDatetime
    for name, mod in list(sys.modules.items()):
        if mod is None or not (name == "ascmhl" or name.startswith("ascmhl.")):
            continue
        for attr, val in list(vars(mod).items()):
            if val is R_datetime:
                setattr(mod, attr, SimDatetime)

    _time_mod.time = lambda: clock.read() / 1e6
    _time_mod.time_ns = lambda: clock.read() * 1000

    def sim_localtime(secs=None):
        return R_localtime(clock.read() // 1_000_000 if secs is None else secs)

    def sim_gmtime(secs=None):
        return R_gmtime(clock.read() // 1_000_000 if secs is None else secs)

    def sim_strftime(fmt, t=None):
        return R_strftime(fmt, sim_localtime() if t is None else t)

    _time_mod.localtime = sim_localtime
    _time_mod.gmtime = sim_gmtime
    _time_mod.strftime = sim_strftime

    import platform

    platform.node = lambda: "simhost"
    sys.addaudithook(_audit_hook)


COMMANDS = None


def _load_commands():
    global COMMANDS
    if COMMANDS is None:
        import ascmhl.commands as c

        COMMANDS = {
            "create": c.create, "verify": c.verify, "diff": c.diff, "flatten": c.flatten, "info": c.info,
            "hash": c.hash, "xsd-schema-check": c.xsd_schema_check,
        }
    return COMMANDS


def preload():
    """import everything the simulated processes need, once, in the worker"""
    import ascmhl.commands  # noqa
    import ascmhl.history  # noqa
    import ascmhl.generator  # noqa
    import ascmhl.hasher  # noqa
    import ascmhl.hashlist_xml_parser  # noqa
    import ascmhl.chain_xml_parser  # noqa
    import requests  # noqa
    import packaging.version  # noqa
    _load_commands()


def _child_reset(cs, world_state, kill):
    """per-command state of the simulated process"""
    cs.env_seed = h64(world_state["env_seed"], "cmd", world_state["cmd_count"])
    cs.clock.now_us = world_state["clock_us"]
    cs.clock.reads = world_state["clock_reads"]
    cs.kill = kill
    cs.effects = []
    cs.reads = {}
    cs.audit = []
    cs.extra = {}
    cs.value = None
    cs.outcome = None
    cs.open_counts = {}
    cs.enum_counts = {}
    cs.on_effect = None
    cs.stdout = io.StringIO()
    cs.stderr = io.StringIO()
    sys.stdout = cs.stdout
    sys.stderr = cs.stderr


def _child_run_job(cs, job, cwd, hooks):
    """runs one job; sets cs.outcome / cs.value (never returns normally on a kill)"""
    import ascmhl.logger as lg

    lg.verbose_logging = False
    lg.debug_logging = False
    cs.concurrent = dict(hooks["concurrent"]) if hooks and hooks.get("concurrent") else None
    os.chdir(cwd)
    try:
        if job[0] == "cmd":
            argv = job[1]
            cmd = _load_commands()[argv[0]]
            runner = hooks.get("runner")
            if runner is not None:
                runner(cs, cmd, argv)
            else:
                cmd.main(args=list(argv[1:]), prog_name="ascmhl " + argv[0], standalone_mode=True)
            cs.outcome = ("exit", 0)
        elif job[0] == "call":
            modname, fname = job[1].split(":")
            import importlib

            mod = importlib.import_module(modname)
            fn = mod
            for part in fname.split("."):
                fn = getattr(fn, part)
            cs.value = fn(*job[2])
            cs.outcome = ("exit", 0)
        elif job[0] == "pyfunc":
            cs.value = job[1](cs, *job[2])
            if cs.outcome is None:
                cs.outcome = ("exit", 0)
    except SystemExit as e:
        code = e.code
        if code is None:
            code = 0
        if not isinstance(code, int):
            print(code, file=cs.stderr)
            code = 1
        cs.outcome = ("exit", code)
    except BaseException as e:
        tb = traceback.extract_tb(e.__traceback__)
        where = ""
        for fr in reversed(tb):
            if "/ascmhl/" in fr.filename:
                where = f"{os.path.basename(fr.filename)}:{fr.name}"
                break
        cs.outcome = ("abort", f"{type(e).__name__}: {e}"[:300])
        cs.extra["abort_type"] = type(e).__name__
        cs.extra["abort_where"] = where
        cs.extra["abort_tb"] = "".join(traceback.format_exception(type(e), e, e.__traceback__))[-3000:]


def _world_state(world):
    return {"env_seed": world.spec["env_seed"], "cmd_count": world.cmd_count, "clock_us": world.clock_us,
            "clock_reads": world.clock_reads}


def _child_setup(world, wfd):
    global CS
    cs = CS = _ChildState()
    cs.wfd = wfd
    cs.base = world.base
    cs.read_profile = world.spec["read_profile"]
    cs.enum_profile = world.spec["enum_profile"]
    cs.wbuf = world.spec["wbuf"]
    cs.clock = Clock(world.clock_us, world.clock_reads, world.spec["env_seed"], world.spec["clock_profile"],
                     world.spec.get("effect_cost_us", 20))
    cs.clock.read_cost_us = world.spec.get("read_cost_us", 0)
    cs.session = False
    _child_reset(cs, _world_state(world), None)
    return cs


def _child_main(world, job, cwd, kill, hooks, wfd):
    cs = None
    try:
        try:
            cs = _child_setup(world, wfd)
            cs.kill = kill
            _install_patches(cs)
            sys.stdout = cs.stdout
            sys.stderr = cs.stderr
        except BaseException:
            if cs is None:
                os._exit(96)
            cs.outcome = ("harness", traceback.format_exc())
            _send_result_and_exit()
        _child_run_job(cs, job, cwd, hooks)
        _send_result_and_exit()
    except BaseException:
        try:
            cs.outcome = ("harness", traceback.format_exc())
            cs.value = None
            _send_result_and_exit()
        finally:
            os._exit(98)


def _session_main(world, cmd_rfd, wfd):
    """a long-lived simulated process that executes several commands one after the other (library-client use:
    module-level state of the code under test survives from one command to the next)"""
    cs = None
    try:
        cs = _child_setup(world, wfd)
        cs.session = True
        _install_patches(cs)
        while True:
            head = b""
            while len(head) < 8:
                b = os.read(cmd_rfd, 8 - len(head))
                if not b:
                    os._exit(0)
                head += b
            n = int.from_bytes(head, "big")
            data = b""
            while len(data) < n:
                b = os.read(cmd_rfd, n - len(data))
                if not b:
                    os._exit(0)
                data += b
            state, job, cwd, kill = pickle.loads(data)
            _child_reset(cs, state, kill)
            _child_run_job(cs, job, cwd, {})
            _send_result(exit_after=False)
    except BaseException:
        try:
            if cs is not None:
                cs.outcome = ("harness", traceback.format_exc())
                cs.value = None
                _send_result_and_exit()
        finally:
            os._exit(98)


# --- environment operations (parent side, real os) ------------------------------------------------------------
def _expand(world, token):
    if isinstance(token, str):
        if "@SELF" in token:
            token = token.replace("@SELF", world.root.lstrip(os.sep))
        if token.startswith("@R"):
            sp = world.spec.get("root_spelling", "abs")
            rest = token[2:]
            if sp == "abs":
                return world.root + rest
            if sp == "abs_slash":
                return world.root + (rest if rest else "/")
            if sp == "abs_dslash":
                return world.root + (rest if rest else "//")
            name = world.spec["rootname"]
            if sp == "rel":  # cwd = mount
                return name + rest
            if sp == "dot_rel":
                return "./" + name + (rest if rest else "/")
            if sp == "dot":  # cwd = root
                return "." + rest if rest else "."
            return world.root + rest
        if token.startswith("@M"):
            return world.mount + token[2:]
        if token.startswith("@S"):
            return world.sandbox + token[2:]
    return token


World.expand = _expand


def _default_cwd(world):
    return world.root if world.spec.get("root_spelling") == "dot" else world.mount


World.default_cwd = _default_cwd


def _abs_of(world, token, cwd=None):
    """absolute, normalised path a command-line token denotes (relative spellings are relative to the command's cwd)"""
    p = _expand(world, token)
    if not os.path.isabs(p):
        p = os.path.join(_expand(world, cwd) if cwd else world.default_cwd(), p)
    return os.path.normpath(p)


World.abs_of = _abs_of


def _env_path(world, p):
    if p.startswith("@"):
        return _abs_of(world, p)  # (never a relative spelling: this code runs in the simulator's own process)
    return world.abspath(p)


def _stamp(world, *paths):
    for p in paths:
        if os.path.lexists(p) and not os.path.islink(p):
            World.set_mtime_us(p, world.clock_us)


def apply_env(world, op):
    """apply one environment operation; returns True if it changed the disk image (the fault 'fired').
    Operations whose target does not exist are no-ops (so scenarios survive deletion of neighbours)."""
    kind = op["op"]
    if kind == "advance":
        world.advance(op["us"])
        world.count_fault("clock_advance" if op["us"] else "clock_same_instant")
        return True
    if kind == "step_back":
        world.clock_us -= op["us"]
        world.count_fault("clock_step_back")
        return True
    p = _env_path(world, op["path"]) if "path" in op else None
    parent = os.path.dirname(p) if p else None
    fired = False
    if kind == "write":
        if os.path.isdir(p):
            return False
        q = parent
        while q and not os.path.lexists(q):
            q = os.path.dirname(q)
        if not os.path.isdir(q):
            return False  # an ancestor of the target is a regular file (e.g. a directory that was replaced by a file)
        R_makedirs(parent, exist_ok=True)
        with R_open(p, "wb") as f:
            f.write(content_bytes(op.get("c")))
        World.set_mtime_us(p, op.get("m", world.clock_us))
        _stamp(world, parent)
        fired = True
    elif kind == "mkdir":
        q = parent
        while q and not os.path.lexists(q):
            q = os.path.dirname(q)
        if not os.path.lexists(p) and os.path.isdir(q):
            R_makedirs(p)
            _stamp(world, p, parent)
            fired = True
    elif kind == "remove":
        if os.path.isfile(p):
            R_remove(p)
            _stamp(world, parent)
            fired = True
    elif kind == "rmdir":
        if os.path.isdir(p) and not R_listdir(p):
            R_rmdir(p)
            _stamp(world, parent)
            fired = True
    elif kind == "rmtree":
        if os.path.isdir(p):
            import shutil

            shutil.rmtree(p)
            _stamp(world, parent)
            fired = True
    elif kind == "rename":
        src = _env_path(world, op["src"])
        dst = _env_path(world, op["dst"])
        if os.path.lexists(src) and not os.path.lexists(dst) and os.path.isdir(os.path.dirname(dst)) \
                and not (dst + os.sep).startswith(src + os.sep):
            st = os.lstat(src)
            R_rename(src, dst)
            R_utime(dst, ns=(st.st_mtime_ns, st.st_mtime_ns))
            _stamp(world, os.path.dirname(src), os.path.dirname(dst))
            fired = True
    elif kind == "link":
        # a second name (hard link) for an existing regular file, e.g. a `cp -al` / rsync --link-dest style snapshot
        src = _env_path(world, op["src"])
        dst = _env_path(world, op["dst"])
        if os.path.isfile(src) and not os.path.islink(src) and not os.path.lexists(dst):
            q = os.path.dirname(dst)
            while q and not os.path.lexists(q):
                q = os.path.dirname(q)
            if not os.path.isdir(q):
                return False
            R_makedirs(os.path.dirname(dst), exist_ok=True)
            os.link(src, dst)
            _stamp(world, os.path.dirname(dst))
            fired = True
    elif kind == "chmod":
        # permission bits of one file, or (tree=True) of every regular file below a directory (chmod -R a-w on files)
        mode = op.get("mode", 0o444)
        targets = []
        if op.get("tree") and os.path.isdir(p):
            for d, subs, files in os.walk(p):
                targets += [os.path.join(d, f) for f in sorted(files) if not os.path.islink(os.path.join(d, f))]
        elif os.path.isfile(p) and not os.path.islink(p):
            targets = [p]
        for t in targets:
            os.chmod(t, mode)
            fired = True
    elif kind == "copy_tree":
        # `cp -a src dst`: a byte-identical copy (own inodes) with the same modification times, e.g. a camera card with
        # its history copied to a second drive
        src = _env_path(world, op["src"])
        dst = _env_path(world, op["dst"])
        if os.path.isdir(src) and not os.path.lexists(dst) and not (dst + os.sep).startswith(src + os.sep):
            q = os.path.dirname(dst)
            while q and not os.path.lexists(q):
                q = os.path.dirname(q)
            if not os.path.isdir(q):
                return False
            R_makedirs(os.path.dirname(dst), exist_ok=True)
            copy_world_tree(src, dst)
            _stamp(world, os.path.dirname(dst))
            fired = True
    elif kind == "link_tree":
        # `cp -al src dst`: the same directory structure, every regular file a hard link to the original
        src = _env_path(world, op["src"])
        dst = _env_path(world, op["dst"])
        if os.path.isdir(src) and not os.path.lexists(dst) and os.path.isdir(os.path.dirname(dst)) \
                and not (dst + os.sep).startswith(src + os.sep):
            for d, subs, files in os.walk(src):
                subs.sort()
                target = os.path.join(dst, os.path.relpath(d, src)) if d != src else dst
                R_makedirs(target, exist_ok=True)
                for f in sorted(files):
                    if os.path.isfile(os.path.join(d, f)) and not os.path.islink(os.path.join(d, f)):
                        os.link(os.path.join(d, f), os.path.join(target, f))
            for d, subs, files in os.walk(dst, topdown=False):
                _stamp(world, d)
            _stamp(world, os.path.dirname(dst))
            fired = True
    elif kind in ("flip", "rewrite", "append", "truncate", "insert", "delbytes"):
        if not os.path.isfile(p):
            return False
        with R_open(p, "rb") as f:
            data = bytearray(f.read())
        old = bytes(data)
        if kind == "flip":
            if not data:
                return False
            i = op.get("byte", 0) % len(data)
            data[i] ^= 1 << (op.get("bit", 0) % 8)
        elif kind == "rewrite":
            if not data:
                return False
            new = hashlib.shake_256(repr(("rw", op.get("seed", 0))).encode()).digest(len(data))
            if new == old:
                new = bytes([old[0] ^ 0xFF]) + old[1:]
            data = bytearray(new)
        elif kind == "append":
            data += content_bytes(op.get("c")) or b"\n"
        elif kind == "truncate":
            if not data:
                return False
            size = op.get("size", 0) % len(data)
            del data[size:]
        elif kind == "insert":
            at = op.get("at", 0) % (len(data) + 1)
            data[at:at] = base64.b64decode(op["b64"])
        elif kind == "delbytes":
            if not data:
                return False
            at = op.get("at", 0) % len(data)
            del data[at: at + max(1, op.get("n", 1))]
        if bytes(data) == old:
            return False
        st = os.lstat(p)
        with R_open(p, "wb") as f:
            f.write(data)
        if op.get("keep_mtime"):
            R_utime(p, ns=(st.st_mtime_ns, st.st_mtime_ns))
        else:
            World.set_mtime_us(p, world.clock_us)
        fired = True
    elif kind == "touch":
        if os.path.lexists(p):
            World.set_mtime_us(p, op.get("m", world.clock_us))
            fired = True
    else:
        raise HarnessError(f"unknown env op {op!r}")
    if fired:
        world.count_fault(op.get("fault", kind))
    return fired


World.apply_env = apply_env


def copy_world_tree(src_base, dst_base):
    """copy a disk image preserving mtimes (files and directories)"""
    import shutil

    shutil.copytree(src_base, dst_base, symlinks=True, copy_function=shutil.copy2)
    for d, subs, _ in os.walk(src_base, topdown=False):
        st = os.lstat(d)
        R_utime(os.path.join(dst_base, os.path.relpath(d, src_base)), ns=(st.st_mtime_ns, st.st_mtime_ns))


def clone_world(world, sandbox):
    """an independent copy of the world (disk image + clock), e.g. to try several commands on the same state"""
    w = World.__new__(World)
    w.spec = dict(world.spec)
    w.sandbox = sandbox
    w.base = os.path.join(sandbox, "w")
    w.mount = os.path.join(w.base, *w.spec["mount"])
    w.root = os.path.join(w.mount, w.spec["rootname"])
    w.clock_us = world.clock_us
    w.clock_reads = world.clock_reads
    w.cmd_count = world.cmd_count
    w.fault_counts = world.fault_counts  # shared counters
    w.sim_us_total = 0
    w._session = None
    w.tz_env = world.tz_env
    R_makedirs(sandbox, exist_ok=True)
    copy_world_tree(world.base, w.base)
    return w


def shutil_rmtree(path):
    import shutil

    shutil.rmtree(path, ignore_errors=True)
