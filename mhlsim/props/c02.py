"""C02 -- A sealed generation records exactly the tree that is on disk."""

import os
import posixpath

from .. import core, explore, model, observe, scen

CONFIG = {
    "level": "exploration",
    "level_text": ("Model-based seeded exploration: random trees (depth <= 3, empty files and directories, names with spaces, "
                   "XML-special, non-ASCII and 200-character names), 0..n prior generations, optional nested histories, "
                   "edits between generations, then create in folder mode (format subsets, -n, -i) or create -sf. For each "
                   "create the manifests it wrote are re-read with an independent XML reader and compared, per history, with "
                   "the full set of non-ignored files and directories found on the disk image (set equality, no duplicates), "
                   "path form (relative, POSIX, no '..') and reference digests of the bytes on disk in every requested format."),
    "level_note": ("Ignore matching in the model is pathspec on the path relative to the command root, restricted to pattern "
                   "forms whose meaning is position independent; -sf beneath a folder with files matching non-default "
                   "history patterns is n/a (C02 and C12 disagree there); hard links (two names of one inode, each a file of "
                   "its own) are generated, symbolic links are not."),
    "technique": "deterministic simulation: seeded tree/history/option exploration against an independent record-set model",
    "quick": {"runs": 2000, "budget_s": 120},
    "thorough": {"runs": 8000, "budget_s": 540},
    "rule": ("one run = random world + 3..12 operations; one evaluation = one executed command. Distinct = (mode folder/sf, "
             "#histories written, #file records class, #dir records class, has-empty-dir, name classes, -n, patterns "
             "present, exit); non-trivial = a create that wrote at least one manifest with at least one record."),
}

WEIGHTS = {"p_create": 0.5, "p_edit": 0.25, "p_ro": 0.0, "nested": 0.5, "sf": 0.3, "n": 0.15, "dr": 0.05, "i": 0.2, "ii": 0.05, "hardlinks": 0.08}


def generate(rng, tier):
    if rng.random() < 0.006:
        # a generation with more than a thousand records
        from .. import gen

        env = gen.gen_env(rng)
        env["read_profile"] = "full"
        tree = {"reel": {"t": "d"}, "notes & report.txt": {"t": "f", "c": gen.unique_content(rng)}}
        for i in range(rng.randint(1001, 1040)):
            tree["reel/frame_%06d.dpx" % i] = {"t": "f", "c": {"gen": [i, 9]}}
        env["tree"] = tree
        return {"world": env, "ops": [scen.cmd("create", "@R", "-h", rng.choice(["md5", "xxh64"]))]}
    if rng.random() < 0.04:
        # library use: one long-lived process seals two unrelated roots; the first history carries a user pattern, the
        # second has none -- whatever one command learnt must not leak into the next
        from .. import gen

        env = gen.gen_env(rng)
        env["process_model"] = "session"
        tree = gen.gen_tree(rng, max_entries=6, max_depth=2, hostile=0.1, min_files=2)
        tree["sub"] = {"t": "d"}
        tree["sub/render.tmp"] = {"t": "f", "c": gen.unique_content(rng)}
        tree["sub/keep.mov"] = {"t": "f", "c": gen.unique_content(rng)}
        env["tree"] = tree
        fm = gen.fmt_args(gen.pick_formats(rng, 1, 2))
        some = rng.choice([f for f in gen.tree_files(tree) if not f.endswith(".tmp")])
        ops = [{"op": "write", "path": "@M/second root/media/clip.tmp", "c": gen.unique_content(rng)},
               {"op": "write", "path": "@M/second root/media/clip.mov", "c": gen.unique_content(rng)},
               scen.cmd("create", "@R", *fm, "-i", "*.tmp"), {"op": "advance", "us": 1_000_000},
               scen.cmd("create", "@R", *fm, "-sf", "@R/" + some), {"op": "advance", "us": 1_000_000},
               scen.cmd("create", "@M/second root", *fm, "-sf", "@M/second root/media"), {"op": "advance", "us": 1_000_000},
               scen.cmd("create", "@M/second root", *fm)]
        return {"world": env, "ops": ops}
    return explore.generate(rng, tier, WEIGHTS, hostile=0.35)


def monitor(ctx, st):
    A = model.analyze_create(st)
    if A is None:
        return
    if A.error:
        ctx.violate({"kind": "manifest-unreadable"}, A.error)
        return
    desc = f"{A.argv} (exit {A.exit})"
    if A.mode == "sf":
        # n/a when a non-default history pattern matches something beneath a named folder
        prev = A.prev_patterns_root or []
        extra = [p for p in prev if p not in observe.default_patterns()]
        if extra and any(os.path.isdir(p) for p in A.sf):
            ig = observe.make_ignore(extra, A.cmd_root)
            if any(ig(f) for f in A.files):
                ctx.probe("sf_folder_with_history_patterns_na")
                return
    n_records = 0
    for hr in A.hist_roots:
        exp_f, exp_d = A.exp_files[hr], A.exp_dirs[hr]
        hrel = os.path.relpath(hr, st.world.root)
        new = A.new.get(hr, [])
        if not new:
            if exp_f or exp_d:
                ctx.violate({"kind": "records-missing", "cause": "no-generation-written", "mode": A.mode},
                            f"{desc}: history {hrel} got no new generation but {len(exp_f)} files / {len(exp_d)} dirs expected")
                return
            continue
        if len(new) > 1:
            ctx.violate({"kind": "several-generations-in-one-history", "mode": A.mode}, f"{desc}: {hrel}: {[g[1] for g in new]}")
            return
        m = new[0][2]
        got_f = [r["path"] for r in m["files"]]
        got_d = [r["path"] for r in m["dirs"]]
        for p in got_f + got_d:
            if p is None or p.startswith("/") or "\\" in p and False or any(part == ".." for part in p.split("/")) or p in ("", "."):
                ctx.violate({"kind": "bad-record-path", "mode": A.mode}, f"{desc}: {hrel}: record path {p!r}")
                return
            if posixpath.normpath(p) != p:
                ctx.violate({"kind": "bad-record-path", "cause": "not-normalised", "mode": A.mode}, f"{desc}: {hrel}: {p!r}")
                return
        if len(set(got_f)) != len(got_f) or len(set(got_d)) != len(got_d) or set(got_f) & set(got_d):
            ctx.violate({"kind": "duplicate-record", "mode": A.mode}, f"{desc}: {hrel}: files {sorted(got_f)} dirs {sorted(got_d)}")
            return
        if set(got_f) != exp_f:
            miss, extra_ = sorted(exp_f - set(got_f)), sorted(set(got_f) - exp_f)
            ctx.violate({"kind": "file-records-differ", "cause": "missing" if miss else "extra", "mode": A.mode},
                        f"{desc}: history {hrel}: missing {miss[:4]} unexpected {extra_[:4]}")
            return
        if set(got_d) != exp_d:
            miss, extra_ = sorted(exp_d - set(got_d)), sorted(set(got_d) - exp_d)
            ctx.violate({"kind": "dir-records-differ", "cause": "missing" if miss else "extra", "mode": A.mode},
                        f"{desc}: history {hrel}: missing {miss[:4]} unexpected {extra_[:4]}")
            return
        # digests
        for r in m["files"]:
            fp = os.path.join(hr, r["path"])
            data = observe.read_bytes(fp)
            fmts = [e["fmt"] for e in r["entries"]]
            failed = any(e["action"] == "failed" for e in r["entries"])
            for e in r["entries"]:
                if e["fmt"] not in observe.FORMATS:
                    ctx.violate({"kind": "unknown-format-element"}, f"{desc}: {r['path']!r} {e['fmt']}")
                    return
                want = observe.digest_bytes(data, e["fmt"])
                if e["digest"] != want:
                    ctx.violate({"kind": "wrong-digest", "fmt": e["fmt"], "mode": A.mode},
                                f"{desc}: {hrel}/{r['path']!r} {e['fmt']}: recorded {e['digest']} but bytes on disk give {want}")
                    return
            missing = [f for f in A.formats if f not in fmts]
            prev_fmts = set()
            for g in A.pre.get(hr, {"gens": []})["gens"]:
                for pr in g[2]["files"]:
                    if pr["path"] == r["path"]:
                        prev_fmts |= {e["fmt"] for e in pr["entries"]}
            if [f for f in missing if f in prev_fmts]:
                ctx.violate({"kind": "requested-format-missing", "cause": "recorded-format", "mode": A.mode},
                            f"{desc}: {hrel}/{r['path']!r} has {fmts}; requested {A.formats}, of which "
                            f"{[f for f in missing if f in prev_fmts]} were recorded before and must be re-checked")
                return
            if missing and not failed:
                ctx.violate({"kind": "requested-format-missing", "mode": A.mode},
                            f"{desc}: {hrel}/{r['path']!r} has {fmts}, requested {A.formats}")
                return
            if not fmts:
                ctx.violate({"kind": "record-without-digest", "mode": A.mode}, f"{desc}: {hrel}/{r['path']!r}")
                return
            n_records += 1
            if len(data) == 0:
                ctx.probe("empty_file_recorded")
        n_records += len(got_d)
    # nothing written outside the histories in scope
    for hr in A.new:
        if hr not in A.hist_roots:
            ctx.violate({"kind": "generation-in-unexpected-history", "mode": A.mode},
                        f"{desc}: {os.path.relpath(hr, st.world.root)}")
            return
    if n_records:
        ctx.nontrivial = True
    empties = any(not core.R_listdir(d) for d in A.dirs)
    if empties:
        ctx.probe("empty_directory_recorded")
    names = [os.path.basename(f) for f in A.files]
    cls = tuple(sorted({c for n in names for c in (("space",) if " " in n else ()) + (("xml",) if any(x in n for x in "&<>'\"") else ())
                        + (("nonascii",) if any(ord(x) > 127 for x in n) else ()) + (("long",) if len(n) > 150 else ())}))
    ctx.state(A.mode, len(A.new), min(len(A.files), 8), min(len(A.dirs), 5), empties, cls, A.nodh,
              bool(A.cli_patterns), A.exit, len(A.formats))


def execute(sc, ctx):
    explore.run(sc, ctx, monitor)


shrink_candidates = explore.shrink_candidates
