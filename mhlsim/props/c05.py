"""C05 -- Any change to a chained manifest is detected before anything else happens."""

import base64
import os

from .. import core, gen, observe, scen
from ..driver import ddmin_list

CONFIG = {
    "level": "fault_enumeration",
    "level_text": ("Fault enumeration inside seeded histories: for a sampled world with a history of 1..5 generations, nested "
                   "to depth <= 3 with siblings, every manifest listed in any chain x edit kind (bit flip, inserted byte, "
                   "deleted byte, truncated tail, truncation to 0, appended newline, appended text, removal) and every chain "
                   "file x removal is combined with every history-reading command rooted at or above the damaged history "
                   "(create, create -sf, verify, verify -sf, verify -dh, diff, info, info -sf, flatten). Quick samples ~40 "
                   "triples per world, thorough enumerates all (byte positions sampled). Oracle: exact exit code 31/33/32, "
                   "empty effect log, empty audit log, identical before/after snapshot."),
    "level_note": ("Byte positions of an edit are sampled (first, last, XML declaration, inside a digest, whitespace, random), "
                   "not enumerated; one fault at a time."),
    "technique": "deterministic simulation: enumeration of manifest/chain faults x commands inside seeded nested histories",
    "quick": {"runs": 192, "budget_s": 90},
    "thorough": {"runs": 1200, "budget_s": 540},
    "rule": ("one run = one random nested history; one evaluation = one (damaged file, edit, command) triple. Distinct = "
             "(edit kind, command, depth of damaged history below the command root, generation position first/middle/last, "
             "file kind); non-trivial = the edit really changed the file and it belongs to a history the command loads."),
}

EDITS = ["flip", "insert", "delete", "truncate_tail", "truncate_0", "append_nl", "append_text", "remove"]
COMMANDS = ["create", "create-sf", "verify", "verify-sf", "verify-dh", "diff", "info", "info-sf", "flatten", "create-n",
            "verify-dh-co", "info-v"]


def generate(rng, tier):
    if rng.random() < 0.05:
        from . import c06

        sc = c06.generate_long(rng)  # chains with more than nine entries
        sc["world"]["tree"]["top.bin"] = {"t": "f", "c": gen.unique_content(rng)}
        sc["ops"] = [o for o in sc["ops"] if o.get("op") != "write"]
        sc.update({"triples": "all" if tier == "thorough" else "sample", "triple_seed": rng.getrandbits(32)})
        return sc
    env = gen.gen_env(rng)
    tree = gen.gen_tree(rng, max_entries=9, max_depth=3, hostile=0.1, min_files=2)
    # make sure there is at least one file directly in the root (for -sf variants)
    tree.setdefault("top.bin", {"t": "f", "c": gen.unique_content(rng)})
    env["tree"] = tree
    dirs = gen.tree_dirs(tree)
    rng.shuffle(dirs)
    nested = sorted(dirs[: rng.randint(0, min(3, len(dirs)))])
    twin_ops = []
    if rng.random() < 0.12:
        # a folder with its own history that was copied, history and all, to a second place below the same root (one
        # camera card on two drives): two histories with byte-identical manifests of the same name
        a, b = rng.choice([("driveA/A001", "driveB/A001"), ("A001", "A001 copy"), ("z/card", "b/card")])
        for d in {os.path.dirname(a), a} - {""}:
            tree[d] = {"t": "d"}
        tree[a + "/clip.mov"] = {"t": "f", "c": gen.unique_content(rng)}
        fm = gen.fmt_args(gen.pick_formats(rng, 1, 2))
        twin_ops = [scen.cmd("create", "@R/" + a, *fm)] * rng.randint(1, 2) + [{"op": "copy_tree", "src": a, "dst": b, "fault": "history_copied"}]
    ops, info = scen.gen_history_ops(rng, tree, n_gens=rng.randint(1, 4), nested=nested, p_sf=0.15, p_n=0.1,
                                     p_edit=0.15, edit_kinds=("add", "touch"), formats_hi=2)
    if rng.random() < 0.12:
        # a create was killed after its manifest was moved into place and before the chain was rewritten; the next create
        # succeeded: the chain numbering has a gap (1..N-1, N+1) and the manifests chained after the gap are protected
        # like all others
        ops.append(dict(scen.cmd("create", "@R", "-h", "md5"), kill={"when": {"kind": "replace", "contains": ".mhl", "nth": 1}, "mode": "after"}))
        ops.append({"op": "advance", "us": 2_000_000})
        ops.append(scen.cmd("create", "@R", "-h", rng.choice(["md5", "xxh64"])))
        if rng.random() < 0.5:
            ops += [{"op": "advance", "us": 2_000_000}, scen.cmd("create", "@R", "-h", "md5")]
    concurrent = None
    if rng.random() < 0.1:
        # a chained manifest is tampered with WHILE a create is running (after it loaded and checked the history, while
        # it hashes media): the running command may finish, every command after it refuses
        concurrent = {"byte": rng.randrange(1 << 16), "bit": rng.randrange(8), "which": rng.randrange(8)}
    if rng.random() < 0.15:
        # the last run on the tree was interrupted inside a write: its temporary file is still lying in an ascmhl folder
        # (the history itself is intact); commands that refuse a tampered history must leave that file alone as well
        ops.append(dict(scen.cmd("create", "@R", "-h", "md5"), kill={"at": rng.choice([3, 4, 5, 7, 9, 12, 16]), "mode": "after"}))
    return {"world": env, "ops": twin_ops + ops, "triples": "all" if tier == "thorough" else "sample",
            "triple_seed": rng.getrandbits(32), "concurrent": concurrent}


def _positions(data, seed):
    n = len(data)
    pos = {0, n - 1, 10 % n, n // 2}
    i = data.find(b"<c4")
    if i > 0:
        pos.add(min(n - 1, i + 10))
    i = data.find(b"\n  ")
    if i > 0:
        pos.add(i + 1)
    pos.add(core.h64(seed, "pos") % n)
    return sorted(pos)


def _apply_edit(path, data, edit, pos):
    if edit == "remove":
        os.remove(path)
        return True
    b = bytearray(data)
    if edit == "flip":
        b[pos] ^= 1 << (pos % 8)
    elif edit == "insert":
        b[pos:pos] = b" "
    elif edit == "delete":
        del b[pos]
    elif edit == "truncate_tail":
        del b[-max(1, min(len(b) - 1, 1 + pos % 40)):]
    elif edit == "truncate_0":
        b = bytearray()
    elif edit == "append_nl":
        b += b"\n"
    elif edit == "append_text":
        b += b"<!-- x -->"
    if bytes(b) == data:
        return False
    with core.R_open(path, "wb") as f:
        f.write(b)
    return True


def _argv(cmdname, root, w, top_file):
    if cmdname == "create":
        return ["create", root, "-h", "md5"]
    if cmdname == "create-n":
        return ["create", root, "-n", "-h", "xxh64", "-h", "c4"]
    if cmdname == "create-sf":
        return ["create", root, "-h", "md5", "-sf", top_file]
    if cmdname == "verify":
        return ["verify", root]
    if cmdname == "verify-sf":
        return ["verify", root, "-sf", top_file]
    if cmdname == "verify-dh":
        return ["verify", root, "-dh"]
    if cmdname == "verify-dh-co":
        return ["verify", root, "-dh", "-co"]
    if cmdname == "diff":
        return ["diff", root]
    if cmdname == "info":
        return ["info", root]
    if cmdname == "info-v":
        return ["info", root, "-v"]
    if cmdname == "info-sf":
        return ["info", "-sf", top_file]
    if cmdname == "flatten":
        return ["flatten", root, os.path.join(w.sandbox, "out")]
    raise ValueError(cmdname)


def execute(sc, ctx):
    w = core.World(sc["world"], ctx.subdir("main"))
    results = scen.run_ops(w, sc["ops"], ctx)
    ctx.absorb_world(w)
    if not scen.setup_ok(results, allowed=(0,)):
        ctx.probe("setup_failed_na")
        return
    hist_roots = observe.find_histories(w.root)
    if w.root not in hist_roots:
        ctx.probe("no_root_history_na")
        return
    targets = []  # (history_root, file path, kind)
    for hr in hist_roots:
        hv = observe.HistoryView(hr)
        if hv.error:
            ctx.probe("setup_unreadable_na")
            return
        chained = [c["path"] for c in hv.chain]
        for i, name in enumerate(chained):
            posn = "first" if i == 0 else "last" if i == len(chained) - 1 else "middle"
            if len(chained) == 1:
                posn = "only"
            targets.append((hr, os.path.join(hr, "ascmhl", name), "manifest", posn))
        targets.append((hr, os.path.join(hr, "ascmhl", "ascmhl_chain.xml"), "chain", "-"))
        targets.append((hr, os.path.join(hr, "ascmhl"), "folder", "-"))
    cc = sc.get("concurrent")
    root_manifests = [t for t in targets if t[0] == w.root and t[2] == "manifest"]
    if cc and root_manifests and os.path.isfile(os.path.join(w.root, "top.bin")):
        victim = root_manifests[cc["which"] % len(root_manifests)][1]
        before = observe.read_bytes(victim)
        r0 = w.run_cmd(["create", w.root, "-h", "md5"], hooks={"concurrent": {"contains": "top.bin", "nth": 1, "path": victim,
                                                                          "byte": cc["byte"], "bit": cc["bit"]}})
        ctx.evaluations += 1
        if r0.extra.get("concurrent_fired") and observe.read_bytes(victim) != before:
            ctx.fault("tamper_during_running_create")
            ctx.nontrivial = True
            snap = core.snapshot(w.sandbox)
            for c in COMMANDS:
                top_file = os.path.join(w.root, "top.bin")
                argv = _argv(c, w.root, w, top_file)
                res = w.run_cmd(argv)
                ctx.evaluations += 1
                desc = f"{os.path.relpath(victim, w.base)} flipped while create was hashing media (that run: {r0.brief()}); then {argv[0]} {argv[2:]} -> {res.brief()}"
                if res.outcome != ("exit", 31):
                    ctx.violate({"kind": "wrong-outcome", "cmd": c, "cause": f"{res.brief()}-instead-of-31", "edit": "concurrent-flip", "depth": 0},
                                desc + " " + res.stderr[-200:])
                    return
                a, rm, ch = core.snapshot_diff(snap, core.snapshot(w.sandbox))
                if a or rm or ch or res.effects:
                    ctx.violate({"kind": "refusing-command-wrote", "cmd": c, "cause": "snapshot", "edit": "concurrent-flip"}, desc + f" {a[:2]} {rm[:2]} {ch[:2]}")
                    return
            ctx.probe("manifest_tampered_during_a_running_create")
            ctx.absorb_world(w)
            return
    triples = []
    for hr, path, kind, posn in targets:
        # command roots: any history root that is an ancestor-or-self of the damaged history
        cmd_roots = [r for r in hist_roots if hr == r or hr.startswith(r + os.sep)]
        if kind == "folder":
            # multi-fault: the chain file AND every manifest removed, the ascmhl directory itself stays
            for c in COMMANDS:
                for r in cmd_roots:
                    triples.append((hr, path, kind, posn, "empty_folder", 0, c, r))
            continue
        data = observe.read_bytes(path)
        if kind == "chain":
            edits = [("remove", 0)]
        else:
            edits = []
            for e in EDITS:
                if e in ("flip", "insert", "delete"):
                    for pos in _positions(data, sc["triple_seed"]):
                        edits.append((e, pos))
                else:
                    edits.append((e, core.h64(sc["triple_seed"], e, os.path.relpath(path, w.base)) % max(1, len(data))))
        for e, pos in edits:
            for c in COMMANDS:
                for r in cmd_roots:
                    triples.append((hr, path, kind, posn, e, pos, c, r))
    if isinstance(sc["triples"], list):
        chosen = [t for t in triples if [os.path.relpath(t[1], w.base), t[4], t[5], t[6], os.path.relpath(t[7], w.base)] in sc["triples"]]
    elif sc["triples"] == "sample":
        order = sorted(range(len(triples)), key=lambda i: core.h64(sc["triple_seed"], i))
        chosen = [triples[i] for i in order[:40]]
    else:
        order = sorted(range(len(triples)), key=lambda i: core.h64(sc["triple_seed"], i))
        chosen = [triples[i] for i in order[:1500]]
    base_snap = core.snapshot(w.sandbox)
    import time as _time

    for hr, path, kind, posn, e, pos, c, r in chosen:
        if ctx.deadline is not None and _time.time() > ctx.deadline:
            ctx.probe("run_cut_short_by_budget")
            break
        # a file directly inside the command root's own history (not in a nested one)
        top_file = None
        for name in sorted(core.R_listdir(r)):
            p = os.path.join(r, name)
            if os.path.isfile(p):
                top_file = p
                break
        if top_file is None and c in ("create-sf", "verify-sf", "info-sf"):
            continue
        if c == "info-sf" and observe.deepest_history_for(top_file, hist_roots) != r:
            continue
        if kind == "folder":
            saved = {n: (observe.read_bytes(os.path.join(path, n)), os.lstat(os.path.join(path, n)).st_mtime_ns) for n in core.R_listdir(path)}
            st = os.lstat(path)
            for n in saved:
                os.remove(os.path.join(path, n))
            data = None
            changed = True
        else:
            data = observe.read_bytes(path)
            st = os.lstat(path)
            changed = _apply_edit(path, data, e, pos)
        if not changed:
            continue
        keep_mtime = e not in ("remove", "empty_folder") and core.h64(sc["triple_seed"], "km", os.path.relpath(path, w.base), e, pos, c) % 2 == 0
        if keep_mtime:
            # the damaged file keeps its old modification time and the folder's too
            os.utime(path, ns=(st.st_mtime_ns, st.st_mtime_ns))
            ctx.probe("tamper_with_preserved_mtime")
        tampered = core.snapshot(w.sandbox)
        argv = _argv(c, r, w, top_file)
        res = w.run_cmd(argv)
        after = core.snapshot(w.sandbox)
        ctx.evaluations += 1
        ctx.steps += 1
        ctx.fault("empty_ascmhl_folder" if kind == "folder" else ("remove_chain" if kind == "chain" else "remove_manifest") if e == "remove" else "tamper_" + e)
        ctx.nontrivial = True
        depth = os.path.relpath(hr, r).count(os.sep) + (0 if hr == r else 1)
        ctx.state(e, c, depth, posn, kind, keep_mtime)
        ctx.note("triple", os.path.relpath(path, w.base), e, pos, c, os.path.relpath(r, w.base), res.outcome)
        want = 32 if kind in ("chain", "folder") else 33 if e == "remove" else 31
        pin = {"triples": [[os.path.relpath(path, w.base), e, pos, c, os.path.relpath(r, w.base)]]}
        desc = f"{os.path.relpath(path, w.base)} {e}@{pos}; {[a.replace(w.base, '<B>') for a in argv]} -> {res.brief()}"
        if res.outcome != ("exit", want):
            ctx.violate({"kind": "wrong-outcome", "cmd": c, "cause": f"{res.brief()}-instead-of-{want}", "edit": e,
                         "depth": depth}, desc + " " + res.stderr[-200:] + res.extra.get("abort_tb", "")[-400:], pin=pin)
            return
        if res.effects or res.audit:
            ctx.violate({"kind": "refusing-command-wrote", "cmd": c, "cause": "effects", "edit": e},
                        desc + f" effects {res.effects[:4]} audit {res.audit[:4]}", pin=pin)
            return
        a, rm, ch = core.snapshot_diff(tampered, after)
        if a or rm or ch:
            ctx.violate({"kind": "refusing-command-wrote", "cmd": c, "cause": "snapshot", "edit": e},
                        desc + f" added {a[:3]} removed {rm[:3]} changed {ch[:3]}", pin=pin)
            return
        # restore
        if kind == "folder":
            for n, (b, mt) in saved.items():
                with core.R_open(os.path.join(path, n), "wb") as f:
                    f.write(b)
                os.utime(os.path.join(path, n), ns=(mt, mt))
            os.utime(path, ns=(st.st_mtime_ns, st.st_mtime_ns))
            continue
        with core.R_open(path, "wb") as f:
            f.write(data)
        os.utime(path, ns=(st.st_mtime_ns, st.st_mtime_ns))
        core.World.set_mtime_us(os.path.dirname(path), base_snap[os.path.relpath(os.path.dirname(path), w.sandbox)][3] // 1000)
    ctx.absorb_world(w)
    ctx.sample = {"history": [o["argv"] for o in sc["ops"] if scen.is_cmd(o)][:6], "n_targets": len(targets),
                  "n_triples_possible": len(triples), "n_triples_run": len(chosen)}


def shrink_candidates(sc):
    for ops in ddmin_list(sc["ops"], 1):
        yield dict(sc, ops=ops)
    if sc.get("concurrent"):
        yield dict(sc, concurrent=None)
    for tree in gen.shrink_tree_candidates(sc["world"]["tree"], {"top.bin"}):
        yield dict(sc, world=dict(sc["world"], tree=tree))
