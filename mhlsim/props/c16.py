"""C16 -- Recorded size and timestamps describe the real file in any time zone."""

import datetime
import os
import re
import time

from .. import core, explore, gen, observe, scen
from ..driver import ddmin_list

CONFIG = {
    "level": "exploration",
    "level_text": ("Seeded exploration over time zones given as POSIX rule strings (UTC, fixed +/- offsets incl. half-hour and "
                   "45-minute zones, DST zones of both hemispheres) and as generated TZif files (zones whose past differs from "
                   "today's rule, modification times back to 1958 i.e. negative time stamps) with the simulated 'now' and the file modification times "
                   "placed mid-winter, mid-summer and seconds before / after each DST switch of the zone (incl. the repeated "
                   "hour), fractional seconds, and a clock that jumps so that one command can straddle a second or a switch. "
                   "Every size, lastmodificationdate, hashdate, creationdate and manifest file name written by create, "
                   "create -sf and flatten is parsed independently and compared with st_size, floor(mtime), the command's "
                   "simulated time interval and the C library's own offset for that instant (time.localtime(t).tm_gmtoff)."),
    "level_note": ("The C library's zone arithmetic for POSIX TZ strings is the reference for 'offset in force'; tzdata zones "
                   "are not needed. The repository's own suite freezes time with freezegun (UTC, tm_isdst=-1) and cannot see "
                   "any of this."),
    "technique": "deterministic simulation: simulated clock + zone rules, file times on both sides of DST switches; timestamp/size oracle",
    "quick": {"runs": 960, "budget_s": 90},
    "thorough": {"runs": 6000, "budget_s": 540},
    "rule": ("one run = world in one zone + 2..6 operations (create variants, flatten, clock advances); one evaluation = one "
             "timestamp or size value judged. Distinct = (zone, field, DST state of the instant, DST state of 'now', size "
             "class 0/1/more); non-trivial = value whose instant lies in the other DST state than 'now', or size 0, or any "
             "value in a zone with a non-zero offset."),
}

_TRANS = {}


def transitions(tz, year):
    """instants (epoch seconds) at which the UTC offset changes in `tz` during `year`"""
    key = (tz, year)
    if key not in _TRANS:
        old = os.environ.get("TZ")
        os.environ["TZ"] = tz
        time.tzset()
        t0 = int(datetime.datetime(year, 1, 1, tzinfo=datetime.timezone.utc).timestamp())
        out = []
        prev = core.R_localtime(t0).tm_gmtoff
        t = t0
        end = t0 + 366 * 86400
        while t < end:
            t += 3600
            cur = core.R_localtime(t).tm_gmtoff
            if cur != prev:
                lo, hi = t - 3600, t
                while hi - lo > 1:
                    mid = (lo + hi) // 2
                    if core.R_localtime(mid).tm_gmtoff == prev:
                        lo = mid
                    else:
                        hi = mid
                out.append(hi)
                prev = cur
        _TRANS[key] = out
        if old is None:
            os.environ.pop("TZ", None)
        else:
            os.environ["TZ"] = old
        time.tzset()
    return _TRANS[key]


ZONES = [
    # zones with a past that differs from the rule in force today (generated TZif files)
    {"std": 3600, "dst": 7200, "start": [3, 5, 2], "end": [10, 5, 3], "years": [1950, 2037]},
    {"std": -18000, "dst": -14400, "start": [4, 5, 2], "end": [10, 5, 2], "years": [1950, 2037]},
    {"std": 0, "dst": 3600, "start": [3, 5, 1], "end": [10, 5, 2], "years": [1960, 2037], "shift": [1968, 3600, 3600]},
    {"std": -16200, "dst": -12600, "start": [10, 2, 0], "end": [3, 2, 0], "years": [1955, 2037], "shift": [2008, -14400, -10800]},
    {"std": 34200, "dst": 37800, "start": [10, 1, 2], "end": [4, 1, 3], "years": [1965, 2030]},
]


def pick_instant(rng, tz, old=False):
    year = rng.choice([2019, 2021, 2023, 2024])
    if old:
        year = rng.choice([1958, 1961, 1965, 1967, 1968, 1969, 1970, 1971])
    tr = transitions(tz, year)
    k = rng.random()
    if not old and k < 0.1:
        # calendar edges: the days around New Year (ISO week-years differ from calendar years there) and the end of
        # February, in years of every weekday alignment
        y = rng.choice(range(2019, 2030))
        edge = rng.choice([(y, 1, 1), (y, 1, 1), (y, 3, 1)])
        t = int(datetime.datetime(*edge, tzinfo=datetime.timezone.utc).timestamp())
        t += rng.choice([-3, -2, -1, 0, 1, 2]) * 86400 + rng.choice([-1, 0, 1, 43200, 86399])
        return t * 1_000_000 + rng.choice([0, 0, 999_999, rng.randrange(1_000_000)])
    base = int(datetime.datetime(year, 1, 15, 12, tzinfo=datetime.timezone.utc).timestamp())
    if k < 0.25 or not tr:
        t = base + rng.randrange(0, 20 * 86400)
    elif k < 0.45:
        t = base + 181 * 86400 + rng.randrange(0, 20 * 86400)
    else:
        sw = rng.choice(tr)
        t = sw + rng.choice([-3700, -3600, -1801, -2, -1, 0, 1, 2, 1799, 3599, 3600, 3601, 7200])
    return t * 1_000_000 + rng.choice([0, 0, 1, 250_000, 999_999, rng.randrange(1_000_000)])


def generate(rng, tier):
    env = gen.gen_env(rng)
    env["tz"] = rng.choice(gen.TZS + [z for z in gen.TZS if "," in z])
    if rng.random() < 0.25:
        env["tz"] = "TZIF"
        env["tzif"] = rng.choice(ZONES)
    tzs = core.resolve_tz(env)
    env["clock_profile"] = rng.choice(["calm", "ms", "jumpy", "jumpy"])
    env["t0"] = pick_instant(rng, tzs)
    tree = gen.gen_tree(rng, max_entries=7, max_depth=2, hostile=0.1, sizes=[0, 0, 1, 2, 17, 1000])
    p_old = rng.choice([0, 0, 0.3, 0.6])  # modification times before / around 1970 (negative time stamps)
    for rel, ent in tree.items():
        ent["m"] = pick_instant(rng, tzs, old=rng.random() < p_old)
    env["tree"] = tree
    ops = []
    nested = scen.subroots_of(tree, rng, 1) if rng.random() < 0.25 else []
    for sub in nested:
        ops.append(scen.cmd("create", scen.root_arg(sub), *gen.fmt_args(gen.pick_formats(rng, 1, 2))))
    state = {"tree": dict(tree), "nested": nested}
    for i in range(rng.randint(2, 5)):
        r = rng.random()
        if r < 0.6 or i == 0:
            ops.append(explore.gen_create(rng, state, {"sf": 0.25, "n": 0.1, "dr": 0.05, "i": 0.05, "creator": 0.1}))
        elif r < 0.8:
            us = rng.choice([0, 1_000_000, 3_600_000_000, 86_400_000_000, 180 * 86_400_000_000, 7_200_000_000])
            ops.append({"op": "advance", "us": us})
        else:
            ops.append(scen.cmd("flatten", "@R", "@S/out"))
    files_ = gen.tree_files(tree)
    if files_ and rng.random() < 0.15:
        # a rename recorded with -dr (the record carries a previous path), then flatten
        f_ = rng.choice(files_)
        fm_ = gen.fmt_args(gen.pick_formats(rng, 1, 1))
        ops += [scen.cmd("create", "@R", *fm_), {"op": "advance", "us": 1_000_000},
                {"op": "rename", "src": f_, "dst": f_ + "_take2", "fault": "rename_file"},
                scen.cmd("create", "@R", "-dr", *fm_), {"op": "advance", "us": 1_000_000}, scen.cmd("flatten", "@R", "@S/out")]
    if rng.random() < 0.4:
        ops.append(scen.cmd("flatten", "@R", "@S/out"))
    return {"world": env, "ops": ops}


ISO_RE = re.compile(r"^\d{4}-\d{2}-\d{2}T\d{2}:\d{2}:\d{2}(\.\d{1,6})?[+-]\d{2}:\d{2}(:\d{2})?$")


def parse_iso(s):
    if not isinstance(s, str) or not ISO_RE.match(s):
        return None
    try:
        d = datetime.datetime.fromisoformat(s)
    except ValueError:
        return None
    if d.tzinfo is None:
        return None
    secs = (d - datetime.datetime(1970, 1, 1, tzinfo=datetime.timezone.utc))
    us = secs.days * 86_400_000_000 + secs.seconds * 1_000_000 + secs.microseconds
    return us, int(d.utcoffset().total_seconds())


def gmtoff(us):
    return core.R_localtime(us // 1_000_000).tm_gmtoff


def monitor(ctx, st):
    op, res, w = st.op, st.res, st.world
    name = op["argv"][0]
    if name not in ("create", "flatten") or res.outcome[0] != "exit" or res.outcome[1] not in (0, 10, 11):
        return
    tz = w.spec["tz"] if w.spec["tz"] != "TZIF" else "TZIF" + repr(sorted(w.spec["tzif"].items()))
    now_off = gmtoff(res.end_us)
    added, removed, changed = core.snapshot_diff(st.pre, st.post)
    for rel in added:
        p = os.path.join(w.sandbox, rel)
        if not rel.endswith(".mhl") or not os.path.isfile(p):
            continue
        try:
            m = observe.read_manifest(p)
        except Exception:
            continue
        hist_root = os.path.dirname(os.path.dirname(p))

        def judge(field, text, lo, hi, exact=None, whole_second=False):
            ctx.evaluations += 1
            parsed = parse_iso(text)
            where = f"{os.path.basename(rel)} {field}"
            if parsed is None:
                ctx.violate({"kind": "malformed-date", "field": field.split(" ")[0]}, f"{where}: {text!r} (tz {tz})")
                return False
            us, off = parsed
            want_off = gmtoff(us)
            other = want_off != now_off
            if other or want_off != 0:
                ctx.nontrivial = True
            ctx.state(tz, field.split(" ")[0], want_off, now_off)
            if other:
                ctx.probe("instant_in_other_dst_state_than_now")
            if exact is not None and us != exact:
                ctx.violate({"kind": "wrong-instant", "field": field.split(" ")[0], "cause": f"off-by-{(us - exact) // 1_000_000}s"},
                            f"{where}: {text} denotes {us} but the true instant is {exact} (tz {tz}, now-offset {now_off})")
                return False
            if exact is None and not (lo <= us <= hi):
                ctx.violate({"kind": "wrong-instant", "field": field.split(" ")[0], "cause": "outside-command-interval"},
                            f"{where}: {text} denotes {us}, command ran in [{lo},{hi}] (tz {tz})")
                return False
            if off != want_off:
                ctx.violate({"kind": "wrong-utc-offset", "field": field.split(" ")[0]},
                            f"{where}: {text} carries offset {off} but {want_off} was in force at that instant (tz {tz})")
                return False
            return True

        lo, hi = res.start_us, res.end_us
        ci = m["creatorinfo"]
        if not judge("creationdate", ci.get("creationdate"), lo - lo % 1_000_000, hi):
            return
        if name == "create":
            for r in m["files"]:
                fp = os.path.join(hist_root, r["path"])
                if not os.path.isfile(fp):
                    continue
                stt = os.stat(fp)
                ctx.evaluations += 1
                ctx.state(tz, "size", min(stt.st_size, 2))
                if stt.st_size == 0:
                    ctx.nontrivial = True
                    ctx.probe("empty_file_size")
                if r["size"] is None or not r["size"].isdigit() or int(r["size"]) != stt.st_size:
                    ctx.violate({"kind": "wrong-size", "cause": "missing" if r["size"] is None else "value",
                                 "size_class": min(stt.st_size, 2)},
                                f"{os.path.basename(rel)}: {r['path']!r} size attribute {r['size']!r}, file has {stt.st_size} bytes")
                    return
                mt_us = stt.st_mtime_ns // 1000
                if not judge(f"lastmodificationdate {r['path']!r}", r["lmd"], 0, 0, exact=mt_us - mt_us % 1_000_000):
                    return
                for e in r["entries"]:
                    if not judge(f"hashdate {r['path']!r} {e['fmt']}", e["hashdate"], lo, hi):
                        return
            for r in m["dirs"]:
                dp = os.path.join(hist_root, r["path"])
                if os.path.isdir(dp) and r["lmd"] is not None and dp not in st.res.touched[2]:
                    # directory mtimes may legitimately change when an ascmhl folder is created inside; only
                    # judge directories that do not contain a history folder
                    if not os.path.isdir(os.path.join(dp, "ascmhl")):
                        mt_us = os.stat(dp).st_mtime_ns // 1000
                        if not judge(f"lastmodificationdate(dir) {r['path']!r}", r["lmd"], 0, 0, exact=mt_us - mt_us % 1_000_000):
                            return
        else:
            # flatten: hash dates are carried over from the source history and must keep their instants
            src = {}
            src_sizes = {}
            for hr in observe.find_histories(w.root)[:1]:
                hv = observe.HistoryView(hr)
                for num, _, sm in hv.generations:
                    for r in sm["files"]:
                        if r["size"] is not None:
                            src_sizes.setdefault(r["path"], set()).add(r["size"])
                        for e in r["entries"]:
                            src.setdefault((r["path"], e["fmt"], e["digest"]), parse_iso(e["hashdate"]))
            for r in m["files"]:
                # the packing list states a size for every file the source history states one for, and one of those
                ctx.evaluations += 1
                if r["path"] in src_sizes and r["size"] not in src_sizes[r["path"]]:
                    ctx.violate({"kind": "wrong-size", "cause": "missing" if r["size"] is None else "value", "size_class": "flatten"},
                                f"{os.path.basename(rel)} (flatten): {r['path']!r} size attribute {r['size']!r}, the history records "
                                f"{sorted(src_sizes[r['path']])}")
                    return
                for e in r["entries"]:
                    want = src.get((r["path"], e["fmt"], e["digest"]))
                    if want is None:
                        continue
                    if not judge(f"hashdate(flatten) {r['path']!r} {e['fmt']}", e["hashdate"], 0, 0, exact=want[0]):
                        return
        # file name carries the UTC time
        mm = re.match(r"^.*_(\d{4})-(\d{2})-(\d{2})_(\d{2})(\d{2})(\d{2})Z\.mhl$", os.path.basename(rel), re.S)
        ctx.evaluations += 1
        if not mm:
            ctx.violate({"kind": "malformed-date", "field": "filename"}, rel)
            return
        t = int(datetime.datetime(*map(int, mm.groups()), tzinfo=datetime.timezone.utc).timestamp())
        if not (lo // 1_000_000 <= t <= hi // 1_000_000):
            ctx.violate({"kind": "wrong-instant", "field": "filename", "cause": "not-utc"},
                        f"{rel}: name time {t} outside [{lo // 1_000_000},{hi // 1_000_000}] (tz {tz})")
            return
    if gmtoff(res.start_us) != gmtoff(res.end_us):
        ctx.probe("command_straddles_dst_switch")
    if res.start_us // 1_000_000 != res.end_us // 1_000_000:
        ctx.probe("command_straddles_second")


def execute(sc, ctx):
    explore.run(sc, ctx, monitor, want_asc=False)


shrink_candidates = explore.shrink_candidates
