"""C14 -- Commands touch nothing beyond what they document."""

import os
import re

from .. import core, explore, observe, scen

CONFIG = {
    "level": "exploration",
    "level_text": ("Seeded exploration of every command with random option combinations on random worlds and histories, "
                   "succeeding or failing (tree edits and manifest tampering provoke every exit code). Three independent "
                   "witnesses are compared per command: the simulator's effect log, a sys.addaudithook log of write-type "
                   "system calls inside the simulated process, and a before/after snapshot (type, size, sha256, mtime, "
                   "mode) of the whole disk image taken with the real os functions."),
    "level_note": ("Effects outside the world base directory are invisible to the snapshot (the audit hook would still see "
                   "Python-level calls); C extensions writing behind Python's back are seen by the snapshot only."),
    "technique": "deterministic simulation: seeded command/option/failure swarm with effect-log + audit-hook + snapshot-diff monitor",
    "quick": {"runs": 1600, "budget_s": 120},
    "thorough": {"runs": 8000, "budget_s": 540},
    "rule": ("one run = random world + 3..12 operations incl. read-only commands, flatten and manifest tampering; one "
             "evaluation = one executed command. Distinct = (command, option set, exit class, #effects); non-trivial = "
             "command ran on a world that has a history or wrote something."),
}

WEIGHTS = {"p_create": 0.3, "p_edit": 0.2, "p_ro": 0.35, "nested": 0.5, "sf": 0.25, "n": 0.15, "dr": 0.3, "i": 0.3}
READ_ONLY = ("verify", "diff", "info", "hash", "xsd-schema-check")


def generate(rng, tier):
    sc = explore.generate(rng, tier, WEIGHTS, hostile=0.15)
    if rng.random() < 0.08:
        # a nested history that the parent ignores from some generation on, together with -dr / -n / new files: the
        # ignored history is out of scope and must not be touched
        from .. import gen

        tree = sc["world"]["tree"]
        tree.setdefault("skipme", {"t": "d"})
        tree.setdefault("skipme/s.bin", {"t": "f", "c": gen.unique_content(rng)})
        fm = gen.fmt_args(gen.pick_formats(rng, 1, 2))
        tail = [scen.cmd("create", "@R/skipme", *fm), {"op": "advance", "us": 1_000_000}, scen.cmd("create", "@R", *fm),
                {"op": "advance", "us": 1_000_000}]
        if rng.random() < 0.7:
            tail.append({"op": "write", "path": "fresh_%d.bin" % rng.randrange(99), "c": gen.unique_content(rng), "fault": "add_file"})
        if rng.random() < 0.4:
            files = gen.tree_files(tree)
            src = rng.choice([f for f in files if not f.startswith("skipme/")] or files)
            tail.append({"op": "rename", "src": src, "dst": src + ".moved", "fault": "rename_file"})
        flags = [x for x in ("-dr", "-n", "-v") if rng.random() < 0.6]
        tail.append(scen.cmd("create", "@R", *fm, "-i", rng.choice(["skipme", "skipme/"]), *flags))
        tail.append(scen.cmd("create", "@R", *fm, *[x for x in ("-dr",) if rng.random() < 0.5]))
        sc["ops"] += tail
    # sometimes damage a manifest / chain late in the run so that commands fail with 31/32/33
    if rng.random() < 0.25 and len(sc["ops"]) > 3:
        at = rng.randrange(2, len(sc["ops"]))
        kind = rng.choice(["flip", "remove", "rmchain"])
        sc["ops"].insert(at, {"op": "tamper", "kind": kind, "r": rng.getrandbits(24)})
        sc["ops"].insert(at + 1, explore.gen_readonly(rng, {"tree": sc["world"]["tree"], "nested": []}))
        sc["ops"].insert(at + 2, scen.cmd("flatten", "@R", "@S/out2"))
    if rng.random() < 0.06:
        # a create that has nothing to record on a folder without history: nothing at all may change
        sc["world"]["tree"]["hollow"] = {"t": "d"}
        sc["ops"] = [scen.cmd("create", "@R", "-h", "md5", "-sf", "@R/hollow"), scen.cmd("info", "@R")] + sc["ops"]
    if rng.random() < 0.2:
        # flatten invoked with relative paths: the destination is relative to the working directory
        rootname = sc["world"]["rootname"]
        k = rng.randrange(3)
        if k == 0:
            op = dict(scen.cmd("flatten", "m/" + rootname, "relout"), cwd="@S/w")
        elif k == 1:
            op = dict(scen.cmd("flatten", rootname + "/", "out_t"), cwd="@M")
        else:
            op = dict(scen.cmd("flatten", "./" + rootname, "../relout2"), cwd="@M")
        sc["ops"].append(op)
    if rng.random() < 0.12:
        # second names for files of a history: a hard-link snapshot of the whole tree (cp -al, rsync --link-dest) or of
        # single history files, kept outside the root or as a document inside it.  Whatever a later create rewrites, the
        # other names of the old inodes are outside its scope and must keep their bytes
        creates = [i for i, o in enumerate(sc["ops"]) if scen.is_cmd(o) and o["argv"][0] == "create"]
        at = (rng.choice(creates) + 1) if creates else len(sc["ops"])
        k = rng.randrange(4)
        if k == 0:
            ln = {"op": "link_tree", "src": "@R", "dst": "@M/snapshot.0", "fault": "hardlink_snapshot"}
        elif k == 1:
            ln = {"op": "link", "src": "@R/ascmhl/ascmhl_chain.xml", "dst": "@M/backup/ascmhl/ascmhl_chain.xml", "fault": "hardlink_chain"}
        elif k == 2:
            ln = {"op": "link", "src": "@R/ascmhl/ascmhl_chain.xml", "dst": "@R/chain_of_custody.xml", "fault": "hardlink_chain"}
        else:
            ln = {"op": "link_tree", "src": "@R/ascmhl", "dst": "@S/asc_copy", "fault": "hardlink_snapshot"}
        fm = ["-h", rng.choice(["md5", "xxh64", "c4"])]
        if rng.random() < 0.4:
            # ... taken while a temporary file of an interrupted run is still lying in the history folder
            sc["ops"][at:at] = [dict(scen.cmd("create", "@R", *fm), kill={"at": rng.choice([2, 3, 4, 6, 9, 12]), "mode": rng.choice(["after", "partial"]), "bytes": 3})]
            at += 1
        sc["ops"][at:at] = [ln, {"op": "advance", "us": 2_000_000}, scen.cmd("create", "@R", *fm),
                            {"op": "advance", "us": 2_000_000}, scen.cmd("create", "@R", *fm, *(["-dr"] if rng.random() < 0.3 else []))]
    if rng.random() < 0.05:
        # a create that fails on its own while the manifest is being serialised (a file name XML 1.0 cannot carry), on a
        # folder without history and on one with history: whatever the exit, nothing but manifests / chain may be left
        from .. import gen as _g

        bad = {"op": "write", "path": rng.choice(["bad\x01name.mov", "sub/ctl\x1f.bin", "zz\x0bv.dat"]), "c": _g.unique_content(rng), "fault": "add_file_with_control_char"}
        tail = [bad, scen.cmd("create", "@R", "-h", "md5"), scen.cmd("info", "@R"), {"op": "remove", "path": bad["path"], "fault": "remove_file"},
                scen.cmd("create", "@R", "-h", "md5")]
        if rng.random() < 0.5:
            sc["ops"] = tail + sc["ops"]
        else:
            sc["ops"] += tail
    if rng.random() < 0.15 and len(sc["ops"]) > 2:
        # an interrupted create somewhere in the middle leaves temporary files behind; later read-only commands
        # must leave them alone as well
        at = rng.randrange(1, len(sc["ops"]))
        sc["ops"].insert(at, dict(scen.cmd("create", "@R", "-h", "md5"),
                                  kill={"at": rng.choice([2, 3, 4, 6, 9]), "mode": rng.choice(["before", "partial", "after"]), "bytes": 3}))
        for j in range(2):
            sc["ops"].insert(at + 1 + j, explore.gen_readonly(rng, {"tree": sc["world"]["tree"], "nested": []}))
    return sc


def _tamper(w, op):
    files = sorted(scen.all_ascmhl_files(w.root))
    if op["kind"] == "rmchain":
        cands = [f for f in files if f.endswith("ascmhl_chain.xml")]
    else:
        cands = [f for f in files if f.endswith(".mhl")]
    if not cands:
        return None
    rel = cands[op["r"] % len(cands)]
    if op["kind"] == "flip":
        return {"op": "flip", "path": rel, "byte": op["r"], "bit": op["r"] % 8, "fault": "tamper_manifest_flip"}
    return {"op": "remove", "path": rel, "fault": "remove_manifest" if op["kind"] == "remove" else "remove_chain"}


def monitor(ctx, st):
    op, res, w = st.op, st.res, st.world
    name = op["argv"][0]
    if res.outcome[0] in ("killed", "hang"):
        return
    added, removed, changed = core.snapshot_diff(st.pre, st.post)
    # '.' and 'w' level entries: the sandbox dir itself may change mtime when flatten creates @S/out
    touched_eff = [(e[1], e[2]) for e in res.effects]
    touched_audit = [(a[0], a[1]) for a in res.audit]
    desc = f"{op['argv']} -> {res.brief()}"
    opts = tuple(sorted({a for a in op["argv"] if a.startswith("-")}))
    ctx.state(name, opts, res.brief(), min(len(res.effects), 5))
    has_hist = any(k.endswith("ascmhl_chain.xml") for k in st.pre)
    if name in READ_ONLY:
        if has_hist:
            ctx.nontrivial = True
        if touched_eff:
            ctx.violate({"kind": "read-only-command-wrote", "cmd": name, "cause": "effect:" + touched_eff[0][0]},
                        f"{desc}: effects {touched_eff[:5]}")
            return
        if touched_audit:
            ctx.violate({"kind": "read-only-command-wrote", "cmd": name, "cause": "audit:" + touched_audit[0][0]},
                        f"{desc}: audit {touched_audit[:5]}")
            return
        if added or removed or changed:
            ctx.violate({"kind": "read-only-command-wrote", "cmd": name, "cause": "snapshot"},
                        f"{desc}: added {added[:3]} removed {removed[:3]} changed {changed[:3]}")
            return
        return
    base_rel = os.path.relpath(w.base, w.sandbox)  # 'w'
    if name == "flatten":
        dest_abs = w.abs_of(op["argv"][2], op.get("cwd"))
        dest = os.path.relpath(dest_abs, w.sandbox)
        ctx.nontrivial = ctx.nontrivial or has_hist
        for rel in added + removed + changed:
            inside = rel == dest or rel.startswith(dest + os.sep)
            parent_of_dest = dest.startswith(rel + os.sep) or rel == "."
            if inside:
                continue
            if parent_of_dest and rel in changed and st.pre[rel][0] == "d" and _only_mtime(st.pre[rel], st.post[rel]):
                continue  # a directory that received the (parent of the) destination folder
            if parent_of_dest and rel in added and st.post[rel][0] == "d":
                continue
            ctx.violate({"kind": "flatten-wrote-outside-destination", "cmd": name},
                        f"{desc}: {rel} {'added' if rel in added else 'removed' if rel in removed else 'changed'}")
            return
        for kind, rel in touched_eff + touched_audit:
            for r in rel.split("|"):
                full = os.path.join(base_rel, r) if r not in ("<outside>", "<fd>") else r
                if r in ("<outside>", "<fd>"):
                    continue
                if not (full == dest or full.startswith(dest + os.sep) or dest.startswith(full + os.sep)):
                    ctx.violate({"kind": "flatten-wrote-outside-destination", "cmd": name, "cause": "effect"},
                                f"{desc}: {kind} {r}")
                    return
        return
    if name == "create":
        ctx.nontrivial = True
        new_asc_dirs = set()
        for rel in added:
            ent = st.post[rel]
            b = os.path.basename(rel)
            if ent[0] == "d" and b == "ascmhl":
                new_asc_dirs.add(rel)
                continue
            if os.path.basename(os.path.dirname(rel)) == "ascmhl" and ent[0] == "f" and (
                    b.endswith(".mhl") or b == "ascmhl_chain.xml"):
                continue
            ctx.violate({"kind": "create-left-unexpected-file", "cmd": name},
                        f"{desc}: new entry {rel} ({ent[0]})")
            return
        for rel in removed:
            b = os.path.basename(rel)
            if os.path.basename(os.path.dirname(rel)) == "ascmhl" and not b.endswith(".mhl") and b != "ascmhl_chain.xml":
                continue  # a stale temporary sibling left by an earlier interrupted run was reused / cleaned up
            ctx.violate({"kind": "create-removed-entry", "cmd": name}, f"{desc}: {rel} removed")
            return
        for rel in changed:
            b = os.path.basename(rel)
            pre, post = st.pre[rel], st.post[rel]
            if os.path.basename(os.path.dirname(rel)) == "ascmhl" and b == "ascmhl_chain.xml":
                # a chain file is rewritten only together with a new generation of that very history
                if any(os.path.dirname(a) == os.path.dirname(rel) and a.endswith(".mhl") for a in added):
                    continue
                ctx.violate({"kind": "create-altered-existing-entry", "cmd": name, "cause": "chain-without-new-generation"},
                            f"{desc}: {rel} changed but its history received no new generation")
                return
            if pre[0] == "d" and post[0] == "d" and _only_mtime(pre, post):
                if b == "ascmhl":
                    continue  # the history folder received a new manifest
                if os.path.join(rel, "ascmhl") in new_asc_dirs or (rel == "." and "ascmhl" in new_asc_dirs):
                    continue  # a directory that just received its first ascmhl sub-folder
                made = {os.path.normpath(os.path.join(base_rel, os.path.dirname(r_))) for k_, r_ in touched_eff
                        if k_ == "mkdir" and os.path.basename(r_) == "ascmhl"}
                if os.path.normpath(rel) in made and res.outcome[0] == "abort":
                    continue  # ... or received it for the duration of a run that broke off with an exception and took it
                    # away again (a run that ends normally and records nothing has no business creating the folder)
            what = "content" if pre[:3] != post[:3] else "mtime" if pre[3] != post[3] else "mode"
            is_manifest = os.path.basename(os.path.dirname(rel)) == "ascmhl"
            if is_manifest and not b.endswith(".mhl") and b != "ascmhl_chain.xml":
                continue  # stale temporary sibling overwritten
            ctx.violate({"kind": "create-altered-existing-entry", "cmd": name,
                         "cause": ("manifest-" if is_manifest else "media-") + what},
                        f"{desc}: {rel} {what} changed")
            return
        # effect / audit logs: only ascmhl folders of histories at or below the command root (or enclosing it for -sf)
        for kind, rel in touched_eff + touched_audit:
            for r in rel.split("|"):
                if r in ("<outside>", "<fd>"):
                    continue
                parts = r.split(os.sep)
                # history folders and temporary siblings of them (e.g. 'ascmhl.tmp') are the documented write area
                if not any("ascmhl" in part for part in parts):
                    ctx.violate({"kind": "create-touched-media", "cmd": name, "cause": kind},
                                f"{desc}: {kind} on {r}")
                    return
        # new generations only in histories that are in scope of the command (not in ignored nested histories)
        if getattr(st, "pre_asc", None) is not None and res.outcome[0] == "exit" and res.outcome[1] in (0, 10, 11):
            from .. import model

            A = model.analyze_create(st)
            if A is not None and not A.error:
                prev = A.prev_patterns_root or []
                sf_na = A.mode == "sf" and any(p_ not in observe.default_patterns() for p_ in prev)
                for hr in A.new:
                    if hr not in A.hist_roots and not sf_na:
                        ctx.violate({"kind": "create-wrote-into-history-out-of-scope", "cmd": name},
                                    f"{desc}: new generation in {os.path.relpath(hr, w.root)!r}, which is ignored / not below the "
                                    f"command root (histories in scope: {[os.path.relpath(h, w.root) for h in A.hist_roots]})")
                        return
        if res.outcome[0] == "exit" and res.outcome[1] in (30, 31, 32, 33) and (added or changed):
            ctx.violate({"kind": "refused-create-wrote", "cmd": name}, f"{desc}: {added[:3]} {changed[:3]}")
            return


def _only_mtime(a, b):
    return a[:3] == b[:3] and a[4] == b[4]


def execute(sc, ctx):
    # resolve tamper ops lazily: they need the disk state
    w_holder = {}

    class _Ops(list):
        pass

    ops = []
    for o in sc["ops"]:
        ops.append(o)
    sc2 = dict(sc)
    sc2["ops"] = ops

    def mon(ctx_, st):
        monitor(ctx_, st)

    # run with a custom loop because of tamper ops
    from ..core import World

    w = World(sc["world"], ctx.subdir("main"))
    for i, op in enumerate(sc["ops"]):
        if op.get("op") == "tamper":
            op = _tamper(w, op)
            if op is None:
                continue
        op2 = explore.resolve_dynamic(w, op)
        if op2 is None:
            continue
        st = explore.Step()
        st.index, st.op, st.world = i, op2, w
        if scen.is_cmd(op2):
            st.pre = core.snapshot(w.sandbox)
            st.pre_asc = scen.all_ascmhl_files(w.sandbox) if op2["argv"][0] == "create" else None
            res, fired = scen.run_op(w, op2)
            st.post_asc = scen.all_ascmhl_files(w.sandbox) if op2["argv"][0] == "create" else None
            # run_child restamps mtimes of touched entries; take the post snapshot afterwards but compare
            # mtimes only for entries the command did not legitimately create
            st.post = core.snapshot(w.sandbox)
            st.res, st.fired = res, fired
            ctx.steps += 1
            ctx.evaluations += 1
            ctx.note("cmd", [a.replace(w.sandbox, "<SB>") for a in op2["argv"]], res.outcome,
                     [(e[1], e[2], e[3]) for e in res.effects])
            monitor(ctx, st)
        else:
            fired = w.apply_env(op2)
            ctx.steps += 1
            ctx.note("env", op2, fired)
    ctx.absorb_world(w)
    ctx.sample = [o["argv"] if scen.is_cmd(o) else o for o in sc["ops"]][:8]


shrink_candidates = explore.shrink_candidates
