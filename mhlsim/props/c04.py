"""C04 -- Digests are always judged against the first recorded value."""

import os

from .. import core, gen, observe, scen
from ..driver import ddmin_list

CONFIG = {
    "level": "exploration",
    "level_text": ("Seeded exploration of generation histories over one to three tracked files (root and nested histories, "
                   "folder and -sf mode): every generation requests a random non-empty subset of the six formats, between "
                   "generations file content is kept, altered or restored. A reference model built from an independent "
                   "reading of all manifests fixes, per (history, path, format), which action each digest must carry and "
                   "which formats may appear; exit codes follow from whether the content equals the first recorded one."),
    "level_note": ("Model: first appearance of a path -> 'original'; later 'verified' iff equal to the earliest recorded "
                   "digest of that format, else 'failed'; a new format only next to a verified recorded format, then "
                   "'verified'. Sampling of the 63^n format-sequence space, weighted towards sequences that drop the first "
                   "recorded format."),
    "technique": "deterministic simulation: seeded generation histories (format subsets x keep/alter/restore) against an action/exit reference model",
    "quick": {"runs": 1440, "budget_s": 90},
    "thorough": {"runs": 9000, "budget_s": 540},
    "rule": ("one run = world with 1..3 tracked files (half of the runs with one inside a nested history) + 2..6 create steps "
             "with format subsets and keep/alter/restore edits; one evaluation = one create judged. Distinct = (tuple of "
             "format-set relations to the recorded formats per step: subset/new/drops-first, edit kind, mode, exit); "
             "non-trivial = step on a path that already has a recorded digest."),
}


def generate(rng, tier):
    env = gen.gen_env(rng)
    if rng.random() < 0.15:
        env["process_model"] = "session"  # all commands of the run in one long-lived simulated process
    env["read_profile"] = rng.choice(["full", "halves", "ragged"])
    nested = rng.random() < 0.5
    tree = {}
    names = rng.sample(["a.bin", "b.bin", "c c.bin"], rng.randint(1, 3))
    if rng.random() < 0.12:
        # names that are harmless as file names but special in format strings / templates
        names[0] = rng.choice(["graded_100%.mov", "50%s_proxy.mov", "{0}.bin", "%(name)s.bin", "a$b.bin", "\\n.bin",
                               "take 1.mov ", " lead.bin", "tab\tend\t", "nbsp\u00a0"])
    for n in names:
        tree[n] = {"t": "f", "c": gen.unique_content(rng)}
    if nested:
        tree["N"] = {"t": "d"}
        tree["N/n.bin"] = {"t": "f", "c": gen.unique_content(rng)}
        if rng.random() < 0.5:
            # the same history-relative name in the root history, in N and in a sibling history S
            same = rng.choice(names)
            tree["N/" + same] = {"t": "f", "c": gen.unique_content(rng)}
            tree["S"] = {"t": "d"}
            tree["S/" + same] = {"t": "f", "c": gen.unique_content(rng)}
        if rng.random() < 0.3:
            tree["N/M"] = {"t": "d"}
            tree["N/M/m.bin"] = {"t": "f", "c": gen.unique_content(rng)}
            if rng.random() < 0.5:
                # a fourth level: root > N > N/M > N/M/K
                tree["N/M/K"] = {"t": "d"}
                tree["N/M/K/k.bin"] = {"t": "f", "c": gen.unique_content(rng)}
        if rng.random() < 0.35:
            # siblings whose names merely start with the name of the nested history folder
            for rel in rng.sample(["N2/p.bin", "N_proxy/p1.mov", "N.bin", "Nx", "N 2/q.bin"], rng.randint(1, 2)):
                if "/" in rel:
                    tree[rel.split("/")[0]] = {"t": "d"}
                tree[rel] = {"t": "f", "c": gen.unique_content(rng)}
    env["tree"] = tree
    files = gen.tree_files(tree)
    ops = []
    nested_ops = []
    if nested:
        if "N/M/K" in tree and rng.random() < 0.8:
            nested_ops.append(scen.cmd("create", "@R/N/M/K", *gen.fmt_args(gen.pick_formats(rng, 1, 2))))
        if "N/M" in tree and rng.random() < (0.95 if "N/M/K" in tree else 0.7):
            nested_ops.append(scen.cmd("create", "@R/N/M", *gen.fmt_args(gen.pick_formats(rng, 1, 2))))
        nested_ops.append(scen.cmd("create", "@R/N", *gen.fmt_args(gen.pick_formats(rng, 1, 2))))
        if "S" in tree and rng.random() < 0.7:
            nested_ops.append(scen.cmd("create", "@R/S", *gen.fmt_args(gen.pick_formats(rng, 1, 2))))
    # the nested histories are usually older than the root history; sometimes they are started when the root history
    # already has one or two generations that record their files
    late_at = rng.choice([1, 2]) if nested and rng.random() < 0.3 else 0
    if not late_at:
        ops += nested_ops
    late_new = None
    pool = list(observe.FORMATS) if rng.random() < 0.5 else rng.sample(observe.FORMATS, 3)
    n = rng.randint(2, 6 if tier == "thorough" else 5)
    if rng.random() < 0.05:
        n = rng.randint(11, 14)  # more than nine generations (two-digit generation numbers)
    first_fmts = None
    for g in range(n):
        if late_at and g == late_at:
            ops += nested_ops
        if g > 0 and nested and rng.random() < 0.2:
            # a new file appears in one history under a name that is already recorded in another
            newf = rng.choice(["N/", "S/"] if "S" in tree else ["N/"]) + rng.choice(names + ["n.bin"])
            if newf not in tree:
                ops.append({"op": "write", "path": newf, "c": gen.unique_content(rng), "fault": "add_file"})
        if g > 0:
            r = rng.random()
            if r < 0.3:
                f = rng.choice(files)
                ops.append({"op": "write", "path": f, "c": gen.unique_content(rng), "fault": "alter_content", "tag": "alter"})
            elif r < 0.5:
                f = rng.choice(files)
                ops.append({"op": "write", "path": f, "c": tree[f]["c"], "fault": "restore_content", "tag": "restore"})
        k = rng.randint(1, min(3, len(pool)))
        fmts = sorted(rng.sample(pool, k))
        if first_fmts is None:
            first_fmts = fmts
        elif rng.random() < 0.35:
            # favour sequences that do not request the first recorded format again
            rest = [x for x in pool if x != sorted(first_fmts)[0]]
            if rest:
                fmts = sorted(rng.sample(rest, min(len(rest), rng.randint(1, 2))))
        args = gen.fmt_args(fmts)
        if g > 0 and rng.random() < 0.25:
            f = rng.choice(files)
            spelled = "@R/" + f
            if rng.random() < 0.25:
                spelled = rng.choice(["@R/./" + f, "@R//" + f, "@R/" + f.split("/")[0] + "/../" + f if "/" in f else "@R/./" + f])
            args += ["-sf", spelled]
        elif rng.random() < 0.1:
            args.append("-n")
        root = "@R"
        if nested and rng.random() < 0.15 and "-sf" not in args:
            root = "@R/N"
        ops.append(scen.cmd("create", root, *args))
        if rng.random() < 0.3:
            ops.append({"op": "advance", "us": rng.choice([0, 1_000_000, 86_400_000_000])})
    return {"world": env, "ops": ops}


def execute(sc, ctx):
    w = core.World(sc["world"], ctx.subdir("main"))
    tree = sc["world"]["tree"]
    first_content = {}  # abs path -> bytes at the time of its first recording
    seen_manifests = set()
    model = {}  # (history_root_rel, path) -> {fmt: earliest digest}
    edit_kind = "none"
    for op in sc["ops"]:
        if not scen.is_cmd(op):
            fired = w.apply_env(op)
            ctx.steps += 1
            ctx.note("env", op, fired)
            if op.get("tag"):
                edit_kind = op["tag"]
            continue
        res, _ = scen.run_op(w, op)
        ctx.steps += 1
        ctx.evaluations += 1
        argv = op["argv"]
        ctx.note("cmd", argv, res.outcome, [(e[1], e[2], e[3]) for e in res.effects])
        if res.outcome[0] != "exit":
            ctx.violate({"kind": "abort", "cause": res.extra.get("abort_type", res.outcome[0]),
                         "where": res.extra.get("abort_where", "")},
                        f"{argv} -> {res.brief()}\n{res.extra.get('abort_tb', '')[-600:]}")
            return
        code = res.outcome[1]
        # new manifests written by this step, per history
        new_manifests = []
        for hr in observe.find_histories(w.root):
            hv = observe.HistoryView(hr)
            if hv.error:
                ctx.violate({"kind": "history-unreadable"}, f"{hr}: {hv.error}")
                return
            for num, name, m in hv.generations:
                key = (hr, name)
                if key not in seen_manifests:
                    seen_manifests.add(key)
                    new_manifests.append((hr, num, m))
        requested = [argv[i + 1] for i, a in enumerate(argv) if a == "-h"]
        any_prior = False
        relation = []
        all_roots = observe.find_histories(w.root)
        for hr, num, m in new_manifests:
            hrel = os.path.relpath(hr, w.root)
            for rec in m["files"]:
                key = (hrel, rec["path"])
                ap = os.path.join(hr, rec["path"])
                # a file is judged against (and recorded in) the deepest history whose folder contains it
                owner = max((r for r in all_roots if os.path.normpath(ap).startswith(r + os.sep)), key=len, default=None)
                if owner != hr:
                    ctx.violate({"kind": "record-in-wrong-history"},
                                f"{argv}: gen {num} of history {hrel!r} records {rec['path']!r}, which belongs to history "
                                f"{os.path.relpath(owner, w.root) if owner else None!r}")
                    return
                known = model.get(key)
                fmts_here = [e["fmt"] for e in rec["entries"]]
                if len(set(fmts_here)) != len(fmts_here):
                    ctx.violate({"kind": "duplicate-format-in-record"}, f"{rec['path']}: {fmts_here}")
                    return
                for e in rec["entries"]:
                    if e["action"] == "new" or e["action"] not in ("original", "verified", "failed"):
                        ctx.violate({"kind": "bad-action", "cause": str(e["action"])},
                                    f"gen {num} {rec['path']} {e['fmt']} action={e['action']!r}")
                        return
                if known is None:
                    # first generation that records the path in this history: everything is 'original'
                    for e in rec["entries"]:
                        if e["action"] != "original":
                            ctx.violate({"kind": "first-record-not-original", "cause": e["action"]},
                                        f"gen {num} first record of {rec['path']}: {e['fmt']} is {e['action']}")
                            return
                    model[key] = {e["fmt"]: e["digest"] for e in rec["entries"]}
                    if os.path.isfile(ap):
                        first_content[ap] = observe.read_bytes(ap)
                    continue
                any_prior = True
                verified_old = False
                failed_old = False
                not_judged = [f for f in requested if f in known and f not in fmts_here]
                if not_judged:
                    ctx.violate({"kind": "recorded-format-requested-but-not-judged"},
                                f"gen {num} {rec['path']}: formats {not_judged} are recorded for the file and were requested, "
                                f"but the new record only has {fmts_here}")
                    return
                for e in rec["entries"]:
                    if e["fmt"] in known:
                        want = "verified" if e["digest"] == known[e["fmt"]] else "failed"
                        if e["action"] != want:
                            ctx.violate({"kind": "wrong-action", "cause": f"{e['action']}-instead-of-{want}"},
                                        f"gen {num} {rec['path']} {e['fmt']}: action {e['action']}, digest "
                                        f"{'equals' if want == 'verified' else 'differs from'} the earliest recorded one")
                            return
                        verified_old |= want == "verified"
                        failed_old |= want == "failed"
                rel = "subset"
                for e in rec["entries"]:
                    if e["fmt"] not in known:
                        rel = "new"
                        if not verified_old or failed_old:
                            ctx.violate({"kind": "new-format-without-verified-reference"},
                                        f"gen {num} {rec['path']}: new format {e['fmt']} recorded although "
                                        f"{'a recorded format failed' if failed_old else 'no recorded format verified'}")
                            return
                        if e["action"] != "verified":
                            ctx.violate({"kind": "wrong-action", "cause": f"new-format-{e['action']}"},
                                        f"gen {num} {rec['path']}: new format {e['fmt']} marked {e['action']}")
                            return
                        known[e["fmt"]] = e["digest"]
                if not any(e["fmt"] in known for e in rec["entries"]):
                    ctx.violate({"kind": "record-without-reference-format"}, f"gen {num} {rec['path']}: {fmts_here}")
                    return
                # content-based expectations
                if os.path.isfile(ap) and ap in first_content:
                    same = observe.read_bytes(ap) == first_content[ap]
                    if same and failed_old:
                        ctx.violate({"kind": "failed-on-unaltered-content"}, f"gen {num} {rec['path']}")
                        return
                    if not same and not failed_old:
                        ctx.violate({"kind": "altered-content-not-failed"},
                                    f"gen {num} {rec['path']}: content differs from the first recorded content but no "
                                    f"entry is marked failed ({[(e['fmt'], e['action']) for e in rec['entries']]})")
                        return
                    first_fmt = sorted(known)[0] if known else None
                    if requested and first_fmt not in requested and rel == "new":
                        rel = "new-drops-first"
                relation.append(rel)
        # exit code: 0 iff every file judged in this step still has its first recorded content
        judged = []
        if "-sf" in argv:
            for i, a in enumerate(argv):
                if a == "-sf":
                    judged.append(w.abs_of(argv[i + 1]))
        else:
            rootp = w.abs_of(argv[1])
            judged = [p for p in first_content if p.startswith(rootp + os.sep)]
        altered = [p for p in judged if os.path.isfile(p) and p in first_content and observe.read_bytes(p) != first_content[p]]
        want_code = 11 if altered else 0
        if code != want_code:
            ctx.violate({"kind": "wrong-exit", "cause": f"{code}-instead-of-{want_code}"},
                        f"{argv} -> exit {code}, expected {want_code} (altered: {[os.path.relpath(p, w.root) for p in altered]})")
            return
        if any_prior:
            ctx.nontrivial = True
        ctx.state(tuple(sorted(set(relation))), edit_kind, "-sf" in argv, code, len(requested))
        if "new-drops-first" in relation:
            ctx.probe("new_format_without_first_recorded_format")
        if altered:
            ctx.probe("failed_generation_recorded")
        edit_kind = "none"
    ctx.absorb_world(w)
    ctx.sample = [o["argv"] if scen.is_cmd(o) else {k: v for k, v in o.items() if k in ("op", "path", "tag")} for o in sc["ops"]][:10]


def shrink_candidates(sc):
    for ops in ddmin_list(sc["ops"], 1):
        c = dict(sc)
        c["ops"] = ops
        yield c
    protected = set()
    for o in sc["ops"]:
        if scen.is_cmd(o):
            for a in o["argv"]:
                if isinstance(a, str) and a.startswith("@R/"):
                    protected.add(a[3:])
        elif "path" in o:
            protected.add(o["path"])
    for tree in gen.shrink_tree_candidates(sc["world"]["tree"], protected):
        c = dict(sc)
        c["world"] = dict(sc["world"], tree=tree)
        yield c
    for i, o in enumerate(sc["ops"]):
        if scen.is_cmd(o):
            argv = o["argv"]
            hs = [j for j, a in enumerate(argv) if a == "-h"]
            if len(hs) > 1:
                for j in hs:
                    new = argv[:j] + argv[j + 2:]
                    c = dict(sc)
                    c["ops"] = sc["ops"][:i] + [dict(o, argv=new)] + sc["ops"][i + 1:]
                    yield c
    for key, val in (("tz", "UTC0"), ("enum_profile", "sorted"), ("read_profile", "full"), ("clock_profile", "calm")):
        if sc["world"].get(key) != val:
            c = dict(sc)
            c["world"] = dict(sc["world"])
            c["world"][key] = val
            yield c
