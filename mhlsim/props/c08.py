"""C08 -- Nested histories partition the tree and reference each other correctly."""

import os

from .. import core, explore, gen, model, observe, scen

CONFIG = {
    "level": "exploration",
    "level_text": ("Seeded exploration of nested layouts: sibling histories, chains up to depth 4, sibling names that are "
                   "prefixes of each other (A, AB, 'A B', A/B, A/BB), nested roots first created in random order relative to "
                   "the outer generations, then create on the outer root (folder mode, with/without -n) or create -sf at any "
                   "depth, under all enumeration-order profiles. The manifests written by each step are re-read "
                   "independently: partition of records over the deepest histories, child root hash = parent directory "
                   "record, one reference per direct child with recomputed c4, children's effects before parents' in the "
                   "effect log, and the exact set of histories that received a generation."),
    "level_note": "same ignore-model restrictions as C02; reference order inside <references> is not judged here (C13).",
    "technique": "deterministic simulation: seeded nested-layout exploration with partition/reference/commit-order oracles over the effect log",
    "quick": {"runs": 1200, "budget_s": 120},
    "thorough": {"runs": 8000, "budget_s": 540},
    "rule": ("one run = random nested world + 3..12 operations; one evaluation = one executed command. Distinct = (mode, "
             "#histories in scope, max nesting depth, #references written, prefix-sibling present, -n, exit); non-trivial = "
             "a create that wrote generations in at least two histories."),
}

WEIGHTS = {"p_create": 0.55, "p_edit": 0.15, "p_ro": 0.0, "nested": 1.0, "sf": 0.35, "n": 0.2, "dr": 0.0, "i": 0.1,
           "max_entries": 14}
DIRS = ["A", "AB", "A B", "B", "BB", "A.B", "a"]


def generate(rng, tier):
    env = gen.gen_env(rng)
    tree = gen.gen_tree(rng, max_entries=14, max_depth=4, hostile=0.05, dir_pool=DIRS, empty_dirs=True)
    # make sure there are a few directories to nest into
    for d in rng.sample(DIRS, 3):
        tree.setdefault(d, {"t": "d"})
        tree.setdefault(d + "/f.bin", {"t": "f", "c": gen.unique_content(rng)})
    if rng.random() < 0.5:
        tree.setdefault("A/B", {"t": "d"})
        tree.setdefault("A/B/deep.bin", {"t": "f", "c": gen.unique_content(rng)})
        tree.setdefault("A", {"t": "d"})
        if rng.random() < 0.5:
            tree.setdefault("A/B/C", {"t": "d"})
            tree.setdefault("A/B/C/deeper.bin", {"t": "f", "c": gen.unique_content(rng)})
    same_base = rng.random() < 0.2
    if same_base:
        for parent in ("P1", "P2"):
            tree.setdefault(parent, {"t": "d"})
            tree.setdefault(parent + "/Clips", {"t": "d"})
            tree.setdefault(parent + "/Clips/c.mov", {"t": "f", "c": gen.unique_content(rng)})
    env["tree"] = tree
    state = {"tree": dict(tree), "nested": []}
    dirs = gen.tree_dirs(tree)
    rng.shuffle(dirs)
    state["nested"] = sorted(dirs[: rng.randint(1, min(4, len(dirs)))])
    if same_base:
        state["nested"] = sorted(set(state["nested"]) | {"P1/Clips", "P2/Clips"})
    if "A/B/C" in tree and rng.random() < 0.5:
        # a full chain of four histories: root > A > A/B > A/B/C
        state["nested"] = sorted(set(state["nested"]) | {"A", "A/B", "A/B/C"})
    pending = list(state["nested"])
    rng.shuffle(pending)
    ops = []
    n_ops = rng.randint(3, 9 if tier == "quick" else 12)
    for i in range(n_ops):
        if pending and rng.random() < 0.6:
            sub = pending.pop()
            ops.append(scen.cmd("create", scen.root_arg(sub), *gen.fmt_args(gen.pick_formats(rng, 1, 2))))
            continue
        r = rng.random()
        if r < 0.6:
            ops.append(explore.gen_create(rng, state, WEIGHTS))
        elif r < 0.8:
            e = explore.gen_edit_any(rng, state)
            if e:
                ops.append(e)
        else:
            ops.append(scen.gen_advance(rng))
    ops.append(explore.gen_create(rng, state, dict(WEIGHTS, sf=0.3)))
    if rng.random() < 0.1:
        # a nested history is lost (its ascmhl folder is deleted, the folder and its files stay) after the outer history
        # referenced it: the next outer create still seals everything (the orphaned files now belong to the enclosing
        # history) and reports the loss with code 30; the run after that is clean again
        n = rng.choice(state["nested"])
        fm = gen.fmt_args(gen.pick_formats(rng, 1, 2))
        ops += [scen.cmd("create", "@R/" + n, *fm), scen.cmd("create", "@R", *fm), scen.gen_advance(rng),
                {"op": "rmtree", "path": n + "/ascmhl", "fault": "nested_history_lost"},
                scen.cmd("create", "@R", *fm, *(["-n"] if rng.random() < 0.2 else [])), scen.gen_advance(rng), scen.cmd("create", "@R", *fm)]
    return {"world": env, "ops": ops}


def monitor(ctx, st):
    A = model.analyze_create(st)
    if A is None:
        return
    if A.error:
        ctx.violate({"kind": "manifest-unreadable"}, A.error)
        return
    w = st.world
    desc = f"{A.argv} (exit {A.exit})"
    rel = lambda p: os.path.relpath(p, w.root)
    if A.mode == "sf":
        prev = A.prev_patterns_root or []
        extra = [p for p in prev if p not in observe.default_patterns()]
        if extra and any(os.path.isdir(p) for p in A.sf):
            ig = observe.make_ignore(extra, A.cmd_root)
            if any(ig(f) for f in A.files):
                ctx.probe("sf_folder_with_history_patterns_na")
                return
    # the set of histories that received a generation
    got = set(A.new)
    if got != A.exp_generation:
        ctx.violate({"kind": "wrong-set-of-histories-written", "mode": A.mode,
                     "cause": "missing" if A.exp_generation - got else "extra"},
                    f"{desc}: generations in {sorted(map(rel, got))}, expected in {sorted(map(rel, A.exp_generation))}")
        return
    for hr, gens in A.new.items():
        if len(gens) != 1:
            ctx.violate({"kind": "several-generations-in-one-history"}, f"{desc}: {rel(hr)}")
            return
    # partition: every entry recorded exactly once, in the deepest history, relative to its root
    for hr in A.hist_roots:
        if hr not in A.new:
            continue
        m = A.new[hr][0][2]
        got_f = sorted(r["path"] for r in m["files"])
        got_d = sorted(r["path"] for r in m["dirs"])
        if got_f != sorted(A.exp_files[hr]) or got_d != sorted(A.exp_dirs[hr]):
            ctx.violate({"kind": "partition-differs", "mode": A.mode},
                        f"{desc}: history {rel(hr)}: files {got_f[:6]} expected {sorted(A.exp_files[hr])[:6]}; "
                        f"dirs {got_d[:6]} expected {sorted(A.exp_dirs[hr])[:6]}")
            return
    n_refs = 0
    for hr in A.new:
        m = A.new[hr][0][2]
        children = [c for c in A.new if c != hr and model.parent_history(c, list(A.new) + A.hist_roots) == hr]
        # references
        want = {}
        for c in children:
            cname = A.new[c][0][1]
            cpath = os.path.join(c, "ascmhl", cname)
            want[os.path.relpath(cpath, hr).replace(os.sep, "/")] = observe.digest_file(cpath, "c4")
        got_refs = [(r["path"], r["c4"]) for r in m["references"]]
        if sorted(got_refs) != sorted(want.items()):
            ctx.violate({"kind": "references-differ", "mode": A.mode,
                         "cause": "digest" if sorted(p for p, _ in got_refs) == sorted(want) else "set"},
                        f"{desc}: {rel(hr)}: references {got_refs} expected {sorted(want.items())}")
            return
        n_refs += len(got_refs)
        # child root hash == directory record in the parent
        if A.mode == "folder":
            for c in children:
                cm = A.new[c][0][2]
                crel = os.path.relpath(c, hr).replace(os.sep, "/")
                drec = [r for r in m["dirs"] if r["path"] == crel]
                if len(drec) != 1:
                    ctx.violate({"kind": "nested-root-not-recorded-in-parent"}, f"{desc}: {rel(hr)} lacks a directory record for {crel}")
                    return
                rh = cm["roothash"]
                if A.nodh:
                    if drec[0]["content"] or (rh and rh["content"]):
                        ctx.violate({"kind": "directory-hash-despite-n"}, f"{desc}: {crel}")
                        return
                    continue
                if rh is None or rh["content"] != drec[0]["content"] or rh["structure"] != drec[0]["structure"]:
                    ctx.violate({"kind": "child-roothash-differs-from-parent-record"},
                                f"{desc}: child {rel(c)} roothash {rh and rh['content']} / parent record {drec[0]['content']}")
                    return
                if sorted(rh["content"]) != sorted(A.formats):
                    ctx.violate({"kind": "roothash-formats-differ"}, f"{desc}: {sorted(rh['content'])} vs requested {A.formats}")
                    return
    # children before parents in the effect log
    first, last = {}, {}
    for seq, kind, erel, n in st.res.effects:
        for part in erel.split("|"):
            ap = os.path.join(w.base, part)
            d = os.path.dirname(ap) if os.path.basename(ap) != "ascmhl" else ap
            if os.path.basename(d) == "ascmhl":
                hr = os.path.dirname(d)
                first.setdefault(hr, seq)
                last[hr] = seq
    for c in A.new:
        p = model.parent_history(c, list(A.new))
        if p is not None and c in last and p in first and last[c] > first[p]:
            ctx.violate({"kind": "parent-written-before-child"},
                        f"{desc}: child {rel(c)} last effect #{last[c]} after parent {rel(p)} first effect #{first[p]}")
            return
    depth = max([os.path.relpath(h, A.cmd_root).count(os.sep) + 1 for h in A.new if h != A.cmd_root] + [0])
    names = {os.path.basename(h) for h in A.hist_roots}
    prefix = any(a != b and b.startswith(a) for a in names for b in names)
    if len(A.new) >= 2:
        ctx.nontrivial = True
    if prefix:
        ctx.probe("prefix_named_sibling_histories")
    if depth >= 3:
        ctx.probe("nesting_depth_ge_3")
    if A.mode == "sf" and len(A.new) >= 2:
        ctx.probe("sf_parent_with_only_references")
    ctx.state(A.mode, len(A.hist_roots), depth, min(n_refs, 4), prefix, A.nodh, A.exit)


def execute(sc, ctx):
    explore.run(sc, ctx, monitor)


shrink_candidates = explore.shrink_candidates
