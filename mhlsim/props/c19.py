"""C19 -- info reports the recorded history truthfully."""

import os
import re

from .. import core, explore, gen, observe, scen
from ..driver import ddmin_list

CONFIG = {
    "level": "exploration",
    "level_text": ("Seeded exploration of histories of any shape (nested to depth 3, failed entries, new formats, -sf "
                   "generations, -n) followed by `info ROOT`, `info -v ROOT` and `info -sf FILE` (no root given; FILE at any "
                   "depth incl. inside nested histories and files that were never recorded), and by the same commands on "
                   "worlds and sub-trees without history. stdout is parsed line by line and compared with an independent "
                   "reading of the manifests: per history exactly the existing generation numbers in ascending order with the "
                   "<creationdate> text, one section per nested history, and for -sf exactly one line per recorded digest "
                   "with generation, format, digest and action."),
    "level_note": "the order among sections of sibling nested histories is not judged; renamed files with -v are not generated.",
    "technique": "deterministic simulation: seeded histories; info output parsed against an independent reading of the manifests",
    "quick": {"runs": 1000, "budget_s": 120},
    "thorough": {"runs": 5000, "budget_s": 540},
    "rule": ("one run = random (nested) history + info variants; one evaluation = one info invocation. Distinct = (variant, "
             "#histories, max #generations, file depth in nested histories, #lines printed, exit); non-trivial = history "
             "with >= 2 generations or >= 1 nested history, or a -sf lookup that prints >= 2 lines."),
}

WEIGHTS = {"p_create": 0.6, "p_edit": 0.2, "p_ro": 0.0, "nested": 0.55, "sf": 0.25, "n": 0.1, "dr": 0.0, "i": 0.05,
           "creator": 0.15}
GEN_LINE = re.compile(r"^  Generation (\d+) \((.*)\)$")
SF_LINE = re.compile(r"^  Generation (\d+) \((.*?)\) (\w+): (\S+) \((\w+)\)$")


def generate(rng, tier):
    if rng.random() < 0.05:
        from . import c06

        sc = c06.generate_long(rng)  # more than nine generations in one history
        sc["probe_seed"] = rng.getrandbits(30)
        return sc
    if rng.random() < 0.4:
        from . import c08

        sc = c08.generate(rng, tier)  # deep chains / prefix-named siblings
    else:
        sc = explore.generate(rng, tier, WEIGHTS, hostile=0.15)
    sc["ops"] = [o for o in sc["ops"] if not (scen.is_cmd(o) and o["argv"][0] == "flatten")]
    if rng.random() < 0.08:
        sc["ops"] = [o for o in sc["ops"] if not scen.is_cmd(o)]  # no history at all
    sc["probe_seed"] = rng.getrandbits(30)
    if rng.random() < 0.1:
        tree = sc["world"]["tree"]
        parent = rng.choice([""] + gen.tree_dirs(tree))
        pre = parent + "/" if parent else ""
        a, b = rng.choice([("Caf\u00e9.mov", "Cafe\u0301.mov"), ("\u00c5.dat", "\u212b.dat")])
        tree[pre + a] = {"t": "f", "c": gen.unique_content(rng)}
        tree[pre + b] = {"t": "f", "c": gen.unique_content(rng)}
        fm = gen.fmt_args(gen.pick_formats(rng, 1, 2))
        sc["ops"] += [scen.cmd("create", "@R", *fm), {"op": "advance", "us": 1_000_000},
                      scen.cmd("create", "@R", *fm, "-sf", "@R/" + pre + rng.choice([a, b])), {"op": "advance", "us": 1_000_000},
                      scen.cmd("create", "@R", *fm)]
        sc["must_probe"] = [pre + a, pre + b]
    if rng.random() < 0.06:
        # two create runs on the same folder overlapped (two operators, a script started twice): both loaded the same N
        # generations, both wrote a generation N+1, in different seconds; the chain is the one of the run that
        # committed last
        sc["overlap"] = {"gap_us": rng.choice([1_000_000, 2_500_000, 61_000_000]), "late_chain": rng.random() < 0.7,
                         "fmts": [rng.choice(["md5", "sha1"]), rng.choice(["xxh64", "c4"])]}
    elif rng.random() < 0.25:
        sc["world"]["process_model"] = "session"
        # ask for files early as well, so that a later nested history changes the right answer
        files = gen.tree_files(sc["world"]["tree"])
        if files:
            at = rng.randrange(0, max(1, len(sc["ops"]) // 2) + 1)
            sc["ops"].insert(at, scen.cmd("info", "-sf", "@R/" + rng.choice(files)))
    return sc


def _parse_sections(stdout):
    """-> [(header_path or None, [(num, date)])]"""
    sections = []
    cur = None
    for line in stdout.split("\n"):
        if line.startswith("Info with history at path: "):
            cur = (line[len("Info with history at path: "):], [])
            sections.append(cur)
        elif line.startswith("Child History at ") and line.endswith(":"):
            cur = (line[len("Child History at "):-1], [])
            sections.append(cur)
        else:
            m = GEN_LINE.match(line)
            if m and cur is not None:
                cur[1].append((int(m.group(1)), m.group(2)))
    return sections


def execute(sc, ctx):
    w = core.World(sc["world"], ctx.subdir("main"))
    results = scen.run_ops(w, sc["ops"], ctx)
    ctx.absorb_world(w)
    if any(res is not None and res.aborted for _, res, _ in results):
        ctx.probe("setup_aborted_na")
        return
    ov = sc.get("overlap")
    if ov and os.path.isfile(os.path.join(w.root, "ascmhl", "ascmhl_chain.xml")):
        wc = core.clone_world(w, ctx.subdir())
        wc.advance(ov["gap_us"])
        r_late = wc.run_cmd(["create", wc.root, "-h", ov["fmts"][1]])
        r_early = w.run_cmd(["create", w.root, "-h", ov["fmts"][0]])
        if r_late.outcome[0] == "exit" and r_early.outcome[0] == "exit" and r_late.outcome[1] in (0, 10, 11) and r_early.outcome[1] in (0, 10, 11):
            for d, subs, files in os.walk(wc.root):
                if os.path.basename(d) != "ascmhl":
                    continue
                dst = os.path.join(w.root, os.path.relpath(d, wc.root))
                for f in sorted(files):
                    # (the run that commits last overwrites a manifest of the same name -- same second -- like its chain)
                    if (f.endswith(".mhl") and (ov["late_chain"] or not os.path.exists(os.path.join(dst, f)))) or (
                            f == "ascmhl_chain.xml" and ov["late_chain"]):
                        with core.R_open(os.path.join(d, f), "rb") as fh:
                            data = fh.read()
                        with core.R_open(os.path.join(dst, f), "wb") as fh:
                            fh.write(data)
            ctx.fault("overlapping_create_runs")
        core.shutil_rmtree(wc.sandbox)
    roots = observe.find_histories(w.root)
    views = {hr: observe.HistoryView(hr) for hr in roots}
    if any(v.error for v in views.values()):
        ctx.probe("setup_unreadable_na")
        return
    has_root_hist = w.root in roots
    max_gens = max([len(v.generations) for v in views.values()] + [0])
    # --- info ROOT / info -v ROOT on the root and on one nested root / one plain directory
    targets = [w.root]
    subdirs = [d for d, _, _ in os.walk(w.root) if d != w.root and os.path.basename(d) != "ascmhl" and "/ascmhl/" not in d + "/"]
    if subdirs:
        targets.append(sorted(subdirs)[sc["probe_seed"] % len(subdirs)])
    for tgt in targets:
        for verbose in (False, True):
            argv = ["info", tgt] + (["-v"] if verbose else [])
            r = w.run_cmd(argv)
            ctx.evaluations += 1
            ctx.steps += 1
            below = [hr for hr in roots if hr == tgt or hr.startswith(tgt + os.sep)]
            ctx.state("info-v" if verbose else "info", len(below), max_gens, r.brief())
            desc = f"{['info', os.path.relpath(tgt, w.root)] + argv[2:]} -> {r.brief()}"
            if r.outcome[0] != "exit":
                ctx.violate({"kind": "abort", "cmd": "info", "cause": r.extra.get("abort_type", r.brief())},
                            desc + r.extra.get("abort_tb", "")[-400:])
                return
            if tgt not in roots:
                # no history at this folder (nested ones below do not count)
                if r.outcome[1] != 30:
                    ctx.violate({"kind": "wrong-exit-without-history", "cmd": "info", "cause": r.brief()}, desc)
                    return
                continue
            if r.outcome[1] != 0:
                ctx.violate({"kind": "wrong-exit", "cmd": "info", "cause": r.brief()}, desc + " " + r.stderr[-200:])
                return
            secs = _parse_sections(r.stdout)
            want = {}
            for hr in below:
                want[hr] = [(g[0], g[2]["creatorinfo"]["creationdate"]) for g in views[hr].generations]
            got = {}
            for header, gens in secs:
                key = os.path.normpath(header)
                if key in got:
                    ctx.violate({"kind": "section-printed-twice", "cmd": "info"}, desc + f": {header}")
                    return
                got[key] = gens
            if set(got) != set(want):
                ctx.violate({"kind": "sections-differ", "cmd": "info", "cause": "missing" if set(want) - set(got) else "extra"},
                            desc + f": sections {sorted(os.path.relpath(k, w.root) for k in got)} expected "
                            f"{sorted(os.path.relpath(k, w.root) for k in want)}")
                return
            for hr in want:
                # ascending by generation number; the order among generations that carry the same number (overlapping
                # runs) is not specified
                nums_ok = [g[0] for g in got[hr]] == [g[0] for g in want[hr]]
                if not nums_ok or sorted(got[hr]) != sorted(want[hr]):
                    ctx.violate({"kind": "generations-differ", "cmd": "info",
                                 "cause": "numbers" if [g[0] for g in got[hr]] != [g[0] for g in want[hr]] else "dates"},
                                desc + f": {os.path.relpath(hr, w.root)}: printed {got[hr]} manifests say {want[hr]}")
                    return
            if len(below) >= 2 or max_gens >= 2:
                ctx.nontrivial = True
            if len(below) >= 3:
                ctx.probe("three_or_more_histories_listed")
    # --- info -sf FILE (no root)
    allfiles = []
    for d, subs, files in os.walk(w.root):
        if "ascmhl" in subs:
            subs.remove("ascmhl")
        for f in sorted(files):
            allfiles.append(os.path.join(d, f))
    allfiles.sort()
    picks = sorted(allfiles, key=lambda p: core.h64(sc["probe_seed"], os.path.relpath(p, w.root)))[:3]
    picks += [w.abspath(p_) for p_ in sc.get("must_probe", []) if os.path.isfile(w.abspath(p_)) and w.abspath(p_) not in picks]
    for fp in picks:
        r = w.run_cmd(["info", "-sf", fp], cwd=w.mount)
        ctx.evaluations += 1
        ctx.steps += 1
        hr = observe.deepest_history_for(fp, roots)
        depth = sum(1 for x in roots if fp.startswith(x + os.sep)) - 1
        desc = f"info -sf {os.path.relpath(fp, w.root)!r} -> {r.brief()}"
        if r.outcome[0] != "exit":
            ctx.violate({"kind": "abort", "cmd": "info -sf", "cause": r.extra.get("abort_type", r.brief())},
                        desc + r.extra.get("abort_tb", "")[-400:])
            return
        if hr is None:
            ctx.state("info-sf", "no-history", r.brief())
            if r.outcome[1] != 30:
                ctx.violate({"kind": "wrong-exit-without-history", "cmd": "info -sf", "cause": r.brief()}, desc)
                return
            continue
        if r.outcome[1] != 0:
            ctx.violate({"kind": "wrong-exit", "cmd": "info -sf", "cause": r.brief()}, desc + " " + r.stderr[-200:])
            return
        relp = os.path.relpath(fp, hr)
        want = []
        for num, name, m in views[hr].generations:
            for rec in m["files"]:
                if rec["path"] == relp:
                    for e in rec["entries"]:
                        want.append((num, m["creatorinfo"]["creationdate"], e["fmt"], e["digest"], e["action"]))
        lines = r.stdout.split("\n")
        got = []
        other = []
        for i, line in enumerate(lines):
            mm = SF_LINE.match(line)
            if mm:
                got.append((int(mm.group(1)), mm.group(2), mm.group(3), mm.group(4), mm.group(5)))
            elif i == 0 and line.startswith("Info with history at path: "):
                if os.path.normpath(line[len("Info with history at path: "):]) != hr:
                    ctx.violate({"kind": "wrong-history-used", "cmd": "info -sf"},
                                desc + f": used {line!r}, nearest enclosing history is {os.path.relpath(hr, w.root)!r}")
                    return
            elif i == 1 and line == relp + ":":
                pass
            elif line.strip():
                other.append(line)
        ctx.state("info-sf", depth, min(len(want), 6), r.brief())
        if len(want) >= 2:
            ctx.nontrivial = True
        if depth >= 1:
            ctx.probe("file_inside_nested_history")
        if sorted(got) != sorted(want):
            ctx.violate({"kind": "file-lines-differ", "cmd": "info -sf",
                         "cause": "missing" if len(got) < len(want) else "extra" if len(got) > len(want) else "values"},
                        desc + f": printed {got} manifests say {want}")
            return
        if [g[0] for g in got] != sorted(g[0] for g in got):
            ctx.violate({"kind": "file-lines-not-ascending", "cmd": "info -sf"}, desc + f": {got}")
            return
        if other:
            ctx.violate({"kind": "unexpected-output", "cmd": "info -sf"}, desc + f": {other[:3]}")
            return
    # --- several -sf arguments in one call: files of one history, the one with the fewest records first
    def lines_for(fp_, hr_):
        relp_ = os.path.relpath(fp_, hr_)
        return [(num, m["creatorinfo"]["creationdate"], e["fmt"], e["digest"], e["action"])
                for num, name, m in views[hr_].generations for rec in m["files"] if rec["path"] == relp_ for e in rec["entries"]]

    groups = {}
    for fp in allfiles:
        hr = observe.deepest_history_for(fp, roots)
        if hr is not None:
            groups.setdefault(hr, []).append(fp)
    multi = [(hr, fs) for hr, fs in sorted(groups.items()) if len(fs) >= 2]
    if multi:
        hr, fs = multi[sc["probe_seed"] % len(multi)]
        fs = sorted(fs, key=lambda p_: (len(lines_for(p_, hr)), core.h64(sc["probe_seed"], "multi", os.path.relpath(p_, w.root))))
        fs = [fs[0]] + fs[-2:] if len(fs) > 2 else fs
        argv = ["info"]
        for fp in fs:
            argv += ["-sf", fp]
        r = w.run_cmd(argv, cwd=w.mount)
        ctx.evaluations += 1
        desc = f"info {' '.join('-sf ' + repr(os.path.relpath(f_, w.root)) for f_ in fs)} -> {r.brief()}"
        if r.outcome != ("exit", 0):
            ctx.violate({"kind": "wrong-exit", "cmd": "info -sf -sf", "cause": r.extra.get("abort_type", r.brief())}, desc + " " + r.stderr[-200:])
            return
        want_all = sorted(x for fp in fs for x in lines_for(fp, hr))
        got_all = sorted((int(mm.group(1)), mm.group(2), mm.group(3), mm.group(4), mm.group(5))
                         for mm in (SF_LINE.match(line) for line in r.stdout.split("\n")) if mm)
        ctx.state("info-sf-multi", len(fs), min(len(want_all), 8))
        if got_all != want_all:
            ctx.violate({"kind": "file-lines-differ", "cmd": "info -sf -sf", "cause": "missing" if len(got_all) < len(want_all) else "other"},
                        desc + f": printed {len(got_all)} lines, the manifests hold {len(want_all)}: missing {[x for x in want_all if x not in got_all][:3]}")
            return
        ctx.probe("info_with_several_sf_arguments")
    ctx.absorb_world(w)
    ctx.sample = [o["argv"] if scen.is_cmd(o) else o for o in sc["ops"]][:8]


shrink_candidates = explore.shrink_candidates
