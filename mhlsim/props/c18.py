"""C18 -- A flattened manifest faithfully summarises the history."""

import os

from .. import core, explore, gen, observe, scen
from ..driver import ddmin_list

CONFIG = {
    "level": "exploration",
    "level_text": ("Seeded exploration of flat histories (no nested child, no renames) with 1..6 generations, changing format "
                   "sets, failed entries (content altered, sealed, restored), files added later and -sf generations covering "
                   "part of the tree; then flatten into a fresh destination (the collection folder name crosses midnight in "
                   "some runs), an independent reading of the packing list compared with a model of the history (every path "
                   "ever recorded, per path the formats ever recorded without failure with the earliest non-failed digest, "
                   "no directory records, process type), a byte comparison of the source history, and verify -pl on the "
                   "unchanged tree and after a content fault."),
    "level_note": ("verify -pl = 0 is only demanded when no recorded file is missing or ignored, no unrecorded file exists and "
                   "every file holds its first recorded content."),
    "technique": "deterministic simulation: seeded flat histories with failures; packing-list model + verify -pl under a content fault",
    "quick": {"runs": 1200, "budget_s": 120},
    "thorough": {"runs": 5000, "budget_s": 540},
    "rule": ("one run = flat history + flatten + verify -pl before/after a fault; one evaluation = one judged command. "
             "Distinct = (#generations, #paths, #formats overall, has failed entries, has -sf generation, has late file, "
             "verify-pl exits); non-trivial = history with >= 2 generations or a failed entry."),
}


def generate_absent(rng):
    """a flat folder with an ignored file; all recorded files are away for one generation (which therefore has no records
    at all) and come back unchanged before the history is flattened"""
    env = gen.gen_env(rng)
    names = rng.sample(["a.mov", "b.mov", "c c.wav", "notes.txt"], rng.randint(1, 3))
    tree = {n: {"t": "f", "c": gen.unique_content(rng), "m": 1_600_000_000_000_000 + i * 1_000_000} for i, n in enumerate(names)}
    tree["scratch.tmp"] = {"t": "f", "c": gen.unique_content(rng)}
    env["tree"] = tree
    fm = gen.fmt_args(gen.pick_formats(rng, 1, 2))
    ops = [scen.cmd("create", "@R", *fm, "-i", "*.tmp"), scen.gen_advance(rng)]
    if rng.random() < 0.5:
        ops += [scen.cmd("create", "@R", *fm), scen.gen_advance(rng)]
    ops += [{"op": "remove", "path": n, "fault": "remove_file"} for n in names]
    ops += [scen.cmd("create", "@R", *fm, *(["-n"] if rng.random() < 0.3 else [])), scen.gen_advance(rng)]
    ops += [{"op": "write", "path": n, "c": tree[n]["c"], "m": tree[n]["m"], "fault": "restore_content"} for n in names]
    return {"world": env, "ops": ops, "fault_seed": rng.getrandbits(30), "prior": None, "absent_round": True}


def generate(rng, tier):
    if rng.random() < 0.04:
        return generate_absent(rng)
    env = gen.gen_env(rng)
    if rng.random() < 0.15:
        env["process_model"] = "session"  # all commands of the run in one long-lived simulated process
    tree = gen.gen_tree(rng, max_entries=7, max_depth=2, hostile=0.2, unique=True, min_files=1)
    if rng.random() < 0.3:
        tree[rng.choice(["empty.lock", "marker"])] = {"t": "f", "c": {"gen": [0, 0]}}
    env["tree"] = tree
    files = gen.tree_files(tree)
    state = dict(tree)
    ops = []
    altered = {}
    n = rng.randint(1, 6)
    if rng.random() < 0.05:
        n = rng.randint(11, 13)  # two-digit generation numbers
    for g in range(n):
        if g > 0:
            r = rng.random()
            if r < 0.3 and files:
                f = rng.choice(files)
                ops.append({"op": "write", "path": f, "c": gen.unique_content(rng), "fault": "alter_content"})
                altered[f] = True
            elif r < 0.5 and altered:
                f = rng.choice(sorted(altered))
                ops.append({"op": "write", "path": f, "c": tree[f]["c"], "fault": "restore_content"})
                del altered[f]
            elif r < 0.65:
                name = "late_%d.bin" % g
                c = gen.unique_content(rng)
                tree[name] = {"t": "f", "c": c, "late": True}
                ops.append({"op": "write", "path": name, "c": c, "fault": "add_file"})
                files = files + [name]
        args = gen.fmt_args(gen.pick_formats(rng, 1, 3))
        if g > 0 and files and rng.random() < 0.25:
            args += ["-sf", "@R/" + rng.choice(files)]
        elif rng.random() < 0.1:
            args.append("-n")
        ops.append(scen.cmd("create", "@R", *args))
        if rng.random() < 0.15:
            ops.append({"op": "step_back", "us": rng.choice([2_000_000, 3_600_000_000, 90_000_000])})
        else:
            ops.append(scen.gen_advance(rng))
    # restore everything in most runs so that verify -pl can succeed
    if rng.random() < 0.75:
        for f in sorted(altered):
            ops.append({"op": "write", "path": f, "c": tree[f]["c"], "fault": "restore_content"})
    late = {k for k, v in tree.items() if v.get("late")}
    env["tree"] = {k: {kk: vv for kk, vv in v.items() if kk != "late"} for k, v in tree.items() if k not in late}
    if rng.random() < 0.08:
        # a path changes its type between two generations: an empty placeholder folder is replaced by a file of that name
        nm = rng.choice(["report", "sub_placeholder", "Z out"])
        if nm not in tree:
            fm_ = gen.fmt_args(gen.pick_formats(rng, 1, 2))
            ops += [{"op": "mkdir", "path": nm, "fault": "add_dir"}, scen.cmd("create", "@R", *fm_), scen.gen_advance(rng),
                    {"op": "rmdir", "path": nm, "fault": "remove_empty_dir"},
                    {"op": "write", "path": nm, "c": gen.unique_content(rng), "fault": "file_replaces_directory"},
                    scen.cmd("create", "@R", *fm_, *(["-h", "c4"] if rng.random() < 0.3 else [])), scen.gen_advance(rng)]
    if rng.random() < 0.08:
        # the last create was killed after its manifest was moved into place and before the chain was rewritten: the
        # folder holds a complete manifest that the chain does not list, and flatten is the first command to see it
        ops.append(dict(scen.cmd("create", "@R", *gen.fmt_args(gen.pick_formats(rng, 1, 2))),
                        kill={"when": {"kind": "replace", "contains": ".mhl", "nth": 1}, "mode": "after"}))
    prior = None
    if rng.random() < 0.2:
        # the destination already holds the packing list of another card, flattened earlier the same day; that card
        # was sealed with an ignore pattern of its own, which has nothing to do with this history
        names = [os.path.basename(f) for f in gen.tree_files(env["tree"])] or ["x.bin"]
        n_ = rng.choice(names)
        prior = {"pattern": rng.choice(["*" + os.path.splitext(n_)[1] if "." in n_ else n_, n_, "late_*", "*.bin", "*.mov"]),
                 "via": rng.choice(["create", "create", "flatten"])}
    return {"world": env, "ops": ops, "fault_seed": rng.getrandbits(30), "prior": prior}


def execute(sc, ctx):
    w = core.World(sc["world"], ctx.subdir("main"))
    results = scen.run_ops(w, sc["ops"], ctx)
    ctx.absorb_world(w)
    if not scen.setup_ok(results, allowed=(0, 10, 11) if sc.get("absent_round") else (0, 11)):
        ctx.probe("setup_failed_na")
        return
    hv = observe.HistoryView(w.root)
    if hv.error or not hv.generations:
        ctx.probe("setup_unreadable_na")
        return
    # model of the flattened content
    want = {}
    first_digest = {}
    has_failed = False
    has_sf = any("-sf" in o["argv"] for o in sc["ops"] if scen.is_cmd(o))
    for num, name, m in hv.generations:
        for r in m["files"]:
            for e in r["entries"]:
                first_digest.setdefault((r["path"], e["fmt"]), e["digest"])
                if e["action"] == "failed":
                    has_failed = True
                    continue
                want.setdefault(r["path"], {}).setdefault(e["fmt"], (e["digest"], e["action"]))
    src_before = scen.all_ascmhl_files(w.root)
    snap_before = core.snapshot(w.root)
    dest = os.path.join(w.sandbox, "flat dest")
    prior = sc.get("prior")
    lists_before = set()
    if prior:
        other = os.path.join(w.mount, "other card")
        w.apply_env({"op": "write", "path": "@M/other card/o1.bin", "c": {"text": "other card 1"}})
        w.apply_env({"op": "write", "path": "@M/other card/take.mov", "c": {"text": "other card 2"}})
        extra = ["-i", prior["pattern"]]
        r0 = w.run_cmd(["create", other, "-h", "md5"] + (extra if prior["via"] == "create" else []))
        r0b = w.run_cmd(["flatten", other, dest] + (extra if prior["via"] == "flatten" else []))
        if r0.outcome != ("exit", 0) or r0b.outcome != ("exit", 0):
            ctx.probe("prior_flatten_failed_na")
            prior = None
        else:
            ctx.fault("destination_with_earlier_packing_list")
        for d, subs, files in os.walk(dest):
            lists_before |= {os.path.join(d, f) for f in files if f.endswith(".mhl")}
        w.advance(1_000_000)
    r = w.run_cmd(["flatten", w.root, dest])
    ctx.evaluations += 1
    ctx.steps += 1
    if r.outcome != ("exit", 0):
        ctx.violate({"kind": "flatten-fails", "cause": r.extra.get("abort_type", r.brief())},
                    f"flatten -> {r.brief()} {r.stderr[-300:]} {r.extra.get('abort_tb', '')[-400:]}")
        return
    if scen.all_ascmhl_files(w.root) != src_before or core.snapshot_diff(snap_before, core.snapshot(w.root))[0:2] != ([], []):
        ctx.violate({"kind": "flatten-modified-source"}, "source history changed")
        return
    lists = []
    for d, subs, files in os.walk(dest):
        for f in files:
            if f.endswith(".mhl") and os.path.join(d, f) not in lists_before:
                lists.append(os.path.join(d, f))
    if len(lists) != 1:
        ctx.violate({"kind": "packing-list-count", "cause": str(len(lists))}, f"{lists}")
        return
    pl = lists[0]
    m = observe.read_manifest(pl)
    if m["process"] != "flatten":
        ctx.violate({"kind": "wrong-process-type", "cause": str(m["process"])}, pl)
        return
    if m["dirs"]:
        ctx.violate({"kind": "directory-records-in-packing-list"}, f"{[d['path'] for d in m['dirs']][:4]}")
        return
    got = {}
    for rec in m["files"]:
        if rec["path"] in got:
            ctx.violate({"kind": "duplicate-record"}, f"{rec['path']!r}")
            return
        fm = {}
        for e in rec["entries"]:
            if e["fmt"] in fm:
                ctx.violate({"kind": "duplicate-format"}, f"{rec['path']!r} {e['fmt']}")
                return
            fm[e["fmt"]] = e["digest"]
        got[rec["path"]] = fm
    if set(got) != set(want):
        ctx.violate({"kind": "record-set-differs", "cause": "missing" if set(want) - set(got) else "extra"},
                    f"packing list paths {sorted(got)[:6]} vs ever recorded {sorted(want)[:6]}")
        return
    for p, fm in want.items():
        if set(fm) != set(got[p]):
            ctx.violate({"kind": "format-set-differs", "cause": "missing" if set(fm) - set(got[p]) else "extra"},
                        f"{p!r}: packing list {sorted(got[p])} vs recorded without failure {sorted(fm)}")
            return
        for fmt, (dig, act) in fm.items():
            if got[p][fmt] != dig:
                ctx.violate({"kind": "not-earliest-nonfailed-digest"},
                            f"{p!r} {fmt}: packing list {got[p][fmt]}, earliest non-failed {dig}")
                return
    n_formats = len({f for fm in want.values() for f in fm})
    if len(hv.generations) >= 2 or has_failed:
        ctx.nontrivial = True
    if has_failed:
        ctx.probe("history_with_failed_entries")
    # verify -pl
    pats = hv.latest_patterns() or observe.default_patterns()
    ig = observe.make_ignore(pats, w.root)
    cur_files, _ = observe.walk_nonignored(w.root, ig)
    cur_rel = {os.path.relpath(f, w.root) for f in cur_files}
    clean = cur_rel == set(want)
    same_content = clean and all(
        observe.digest_file(os.path.join(w.root, p), fmt) == first_digest[(p, fmt)]
        for p, fm in want.items() for fmt in list(fm)[:1])
    r1 = w.run_cmd(["verify", w.root, "-pl", pl])
    ctx.evaluations += 1
    if clean:
        want_code = 0 if same_content else 11
        if r1.outcome != ("exit", want_code):
            ctx.violate({"kind": "verify-pl-wrong-exit", "cause": f"{r1.brief()}-instead-of-{want_code}"},
                        f"verify -pl on the {'unchanged' if same_content else 'altered'} tree -> {r1.brief()}: {r1.stderr[-300:]} {r1.extra.get('abort_tb', '')[-300:]}")
            return
    if clean and same_content and cur_files:
        victim = sorted(cur_rel)[sc["fault_seed"] % len(cur_rel)]
        if prior:
            import fnmatch

            hit = [p_ for p_ in sorted(cur_rel) if fnmatch.fnmatch(os.path.basename(p_), prior["pattern"])]
            if hit:
                victim = hit[sc["fault_seed"] % len(hit)]
                ctx.probe("victim_matches_pattern_of_earlier_packing_list")
        if not w.apply_env({"op": "rewrite", "path": victim, "seed": sc["fault_seed"], "fault": "content_fault"}):
            w.apply_env({"op": "append", "path": victim, "c": {"text": "!"}, "fault": "content_fault"})
        r2 = w.run_cmd(["verify", w.root, "-pl", pl])
        ctx.evaluations += 1
        if r2.outcome != ("exit", 11):
            ctx.violate({"kind": "verify-pl-misses-fault", "cause": r2.brief()},
                        f"verify -pl after altering {victim!r} -> {r2.brief()}")
            return
        ctx.probe("verify_pl_fault_detected")
    ctx.state(len(hv.generations), min(len(want), 6), n_formats, has_failed, has_sf, r1.brief())
    ctx.absorb_world(w)
    ctx.sample = [o["argv"] if scen.is_cmd(o) else {k: v for k, v in o.items() if k in ("op", "path", "fault")} for o in sc["ops"]][:10]


def shrink_candidates(sc):
    for ops in ddmin_list(sc["ops"], 1):
        yield dict(sc, ops=ops)
    if sc.get("prior"):
        yield dict(sc, prior=None)
    protected = set()
    for o in sc["ops"]:
        if scen.is_cmd(o):
            for a in o["argv"]:
                if isinstance(a, str) and a.startswith("@R/"):
                    protected.add(a[3:])
        elif "path" in o:
            protected.add(o["path"])
    for tree in gen.shrink_tree_candidates(sc["world"]["tree"], protected):
        yield dict(sc, world=dict(sc["world"], tree=tree))
    for key, val in (("tz", "UTC0"), ("enum_profile", "sorted"), ("read_profile", "full"), ("clock_profile", "calm")):
        if sc["world"].get(key) != val:
            yield dict(sc, world=dict(sc["world"], **{key: val}))
