"""C06 -- Histories are append-only and generations are numbered without gaps."""

import datetime
import os
import re

from .. import core, explore, observe, scen

CONFIG = {
    "level": "exploration",
    "level_text": ("Seeded exploration of create / create -sf sequences (flat and nested histories, tree edits in between so "
                   "that runs end 0, 10 or 11) under a simulated clock that puts several generations into one second, lets "
                   "parent and child manifests straddle seconds, and steps backwards. After every create an independent "
                   "monitor compares all earlier manifests byte for byte, checks the single new file's number, name and "
                   "UTC time, and recomputes the chain entry from the file's bytes."),
    "level_note": ("Aborted creates are not judged here (they belong to C04/C09/C17). Chain and manifests are read with "
                   "expat, c4 recomputed with hashlib; sampling, not exhaustive."),
    "technique": "deterministic simulation: seeded command/edit/clock sequences with an append-only + chain-consistency monitor",
    "quick": {"runs": 1600, "budget_s": 120},
    "thorough": {"runs": 6000, "budget_s": 540},
    "rule": ("one run = random world + 3..12 operations (create variants on root and nested roots, tree edits, clock "
             "advances incl. 0 and backwards steps); one evaluation = one executed command. Distinct = (command kind, exit "
             "class, #histories that got a generation, max generation number, same-second flag); non-trivial = a create "
             "that wrote at least one manifest."),
}

WEIGHTS = {"p_create": 0.55, "p_edit": 0.2, "p_ro": 0.05, "nested": 0.5, "sf": 0.25, "i": 0.2}


def generate_long(rng):
    """a long history (11..14 generations in one folder) on a tiny tree"""
    from .. import gen

    env = gen.gen_env(rng)
    tree = {"a.bin": {"t": "f", "c": gen.unique_content(rng)}, "S": {"t": "d"}, "S/b.bin": {"t": "f", "c": gen.unique_content(rng)}}
    env["tree"] = tree
    ops = []
    if rng.random() < 0.5:
        ops.append(scen.cmd("create", "@R/S", "-h", "md5"))
    fm = gen.fmt_args(gen.pick_formats(rng, 1, 1))
    for g in range(rng.randint(11, 14)):
        r = rng.random()
        if r < 0.2:
            ops.append(scen.cmd("create", "@R", *fm, "-sf", "@R/a.bin"))
        elif r < 0.3:
            ops.append({"op": "write", "path": "n%d.bin" % g, "c": gen.unique_content(rng), "fault": "add_file"})
            ops.append(scen.cmd("create", "@R", *fm))
        else:
            ops.append(scen.cmd("create", "@R", *fm))
        ops.append({"op": "advance", "us": rng.choice([0, 0, 1_000_000, 61_000_000])})
    return {"world": env, "ops": ops}


def generate_empty(rng):
    """a history without any non-ignored file, sealed several times (also with -n, also within one second): the
    manifests of such generations can be byte-identical apart from their names"""
    from .. import gen

    env = gen.gen_env(rng)
    env["clock_profile"] = rng.choice(["calm", "frozen"])
    k = rng.randrange(3)
    tree = {} if k == 0 else {"E": {"t": "d"}, "E/F": {"t": "d"}} if k == 1 else {"x.bak": {"t": "f", "c": gen.unique_content(rng)}}
    env["tree"] = tree
    extra = ["-i", "*.bak"] if k == 2 else []
    ops = []
    for g in range(rng.randint(3, 5)):
        args = ["-h", rng.choice(["md5", "c4"])] + (["-n"] if rng.random() < 0.7 else []) + extra
        ops.append(scen.cmd("create", "@R", *args))
        ops.append({"op": "advance", "us": rng.choice([0, 0, 0, 1_000_000])})
    return {"world": env, "ops": ops}


def generate(rng, tier):
    if rng.random() < 0.06:
        return generate_long(rng)
    if rng.random() < 0.05:
        return generate_empty(rng)
    sc = explore.generate(rng, tier, WEIGHTS, hostile=0.1)
    # sprinkle clock faults
    ops = []
    for o in sc["ops"]:
        ops.append(o)
        if scen.is_cmd(o) and rng.random() < 0.35:
            ops.append({"op": "advance", "us": 0})
        elif scen.is_cmd(o) and rng.random() < 0.08:
            ops.append({"op": "step_back", "us": rng.choice([1_000_000, 3_600_000_000, 500_000])})
    sc["ops"] = ops
    return sc


NAME_RE = re.compile(r"^(\d{4,})_(.*)_(\d{4})-(\d{2})-(\d{2})_(\d{2})(\d{2})(\d{2})Z\.mhl$", re.S)


def monitor(ctx, st):
    op, res = st.op, st.res
    if op["argv"][0] != "create":
        return
    if res.outcome[0] != "exit":
        ctx.probe("create_aborted_na:" + res.extra.get("abort_type", res.outcome[0]) + "@" + res.extra.get("abort_where", ""))
        return
    code = res.outcome[1]
    pre, post = st.pre_asc, st.post_asc
    base = st.world.sandbox
    # 1. append-only: every earlier manifest is still there, unchanged
    for rel, data in pre.items():
        if rel.endswith(".mhl") and post.get(rel) != data:
            ctx.violate({"kind": "old-manifest-changed", "exit": code},
                        f"{rel} {'vanished' if rel not in post else 'changed'} during {op['argv']}")
            return
    # group by ascmhl folder
    folders = sorted({os.path.dirname(r) for r in list(pre) + list(post)})
    n_new = 0
    max_gen = 0
    same_second = False
    for folder in folders:
        pre_names = {os.path.basename(r) for r in pre if os.path.dirname(r) == folder}
        post_names = {os.path.basename(r) for r in post if os.path.dirname(r) == folder}
        new = sorted(n for n in post_names - pre_names if n.endswith(".mhl"))
        stray = sorted(n for n in post_names - pre_names if not n.endswith(".mhl") and n != "ascmhl_chain.xml")
        chain_rel = os.path.join(folder, "ascmhl_chain.xml")
        prev_nums = [int(m.group(1)) for m in (observe.LOADER_NAME_RE.match(n[:-4]) for n in pre_names if n.endswith(".mhl")) if m]
        prev_max = max(prev_nums) if prev_nums else 0
        try:
            pre_chain = observe.read_chain(os.path.join(base, chain_rel)) if False else None
        except Exception:
            pre_chain = None
        if code in (30, 31, 32, 33):
            if new or post.get(chain_rel) != pre.get(chain_rel):
                ctx.violate({"kind": "refused-create-wrote", "exit": code}, f"{folder}: {new}")
                return
            continue
        if len(new) > 1:
            ctx.violate({"kind": "more-than-one-new-manifest", "exit": code}, f"{folder}: {new}")
            return
        if not new:
            if post.get(chain_rel) != pre.get(chain_rel):
                ctx.violate({"kind": "chain-changed-without-generation", "exit": code}, f"{folder}")
                return
            continue
        n_new += 1
        name = new[0]
        m = NAME_RE.match(name)
        hist_root_name = os.path.basename(os.path.dirname(os.path.join(base, folder)))
        if not m:
            ctx.violate({"kind": "bad-manifest-name", "exit": code}, f"{folder}/{name}")
            return
        num = int(m.group(1))
        max_gen = max(max_gen, num)
        if num != prev_max + 1 or len(m.group(1)) != max(4, len(str(num))):
            ctx.violate({"kind": "bad-generation-number", "exit": code},
                        f"{folder}/{name}: number {m.group(1)} but highest existing generation is {prev_max}")
            return
        if m.group(2) != hist_root_name:
            ctx.violate({"kind": "bad-manifest-name", "cause": "folder", "exit": code},
                        f"{folder}/{name}: folder part {m.group(2)!r} != {hist_root_name!r}")
            return
        try:
            t = datetime.datetime(int(m.group(3)), int(m.group(4)), int(m.group(5)), int(m.group(6)), int(m.group(7)),
                                  int(m.group(8)), tzinfo=datetime.timezone.utc).timestamp()
        except ValueError:
            ctx.violate({"kind": "bad-manifest-name", "cause": "time", "exit": code}, f"{folder}/{name}")
            return
        lo, hi = res.start_us // 1_000_000, res.end_us // 1_000_000
        if not (lo <= t <= hi):
            ctx.violate({"kind": "bad-manifest-name", "cause": "not-utc-now", "exit": code},
                        f"{folder}/{name}: time {t} outside the command's UTC interval [{lo},{hi}] (tz {st.world.spec['tz']})")
            return
        for pn in pre_names:
            pm = NAME_RE.match(pn)
            if pm and pm.groups()[2:] == m.groups()[2:]:
                same_second = True
        # chain = old entries + exactly one matching new entry
        try:
            new_chain = observe.read_chain(os.path.join(base, chain_rel))
        except Exception as e:
            ctx.violate({"kind": "chain-unreadable", "exit": code}, f"{chain_rel}: {e}")
            return
        old_chain = []
        if chain_rel in pre:
            import xml.etree.ElementTree as ET

            root = ET.fromstring(pre[chain_rel])
            for hl in root.findall(observe.NSD + "hashlist"):
                old_chain.append({"seq": hl.attrib.get("sequencenr"), "path": observe._t(hl.find(observe.NSD + "path")),
                                  "c4": observe._t(hl.find(observe.NSD + "c4"))})
        if new_chain[: len(old_chain)] != old_chain or len(new_chain) != len(old_chain) + 1:
            ctx.violate({"kind": "chain-not-appended", "exit": code},
                        f"{chain_rel}: old {len(old_chain)} entries, new {len(new_chain)}: {new_chain[-2:]}")
            return
        ent = new_chain[-1]
        want_c4 = observe.digest_bytes(post[os.path.join(folder, name)], "c4")
        if ent["seq"] != str(num) or ent["path"] != name or ent["c4"] != want_c4:
            ctx.violate({"kind": "chain-entry-mismatch", "exit": code},
                        f"{chain_rel}: new entry {ent} but file is nr {num} {name} c4 {want_c4}")
            return
        if stray:
            ctx.probe("stray_file_in_ascmhl")
    # every history the command touches (the command root, the nested histories it traverses or whose files it records,
    # and the histories in between) received its one generation -- none was left out
    if code in (0, 10, 11):
        from .. import model

        A = model.analyze_create(st)
        if A is not None and not A.error:
            na = False
            if A.mode == "sf":
                extra = [p_ for p_ in (A.prev_patterns_root or []) if p_ not in observe.default_patterns()]
                if extra and any(os.path.isdir(p_) for p_ in A.sf):
                    ig = observe.make_ignore(extra, A.cmd_root)
                    na = any(ig(f) for f in A.files)
            if not na and set(A.new) != A.exp_generation:
                rel = lambda p_: os.path.relpath(p_, st.world.root)
                ctx.violate({"kind": "touched-history-without-generation" if A.exp_generation - set(A.new) else
                             "generation-in-untouched-history", "exit": code},
                            f"{op['argv']}: generations in {sorted(map(rel, A.new))}, histories touched {sorted(map(rel, A.exp_generation))}")
                return
    if n_new:
        ctx.nontrivial = True
    if same_second:
        ctx.probe("two_generations_same_second")
    if n_new > 1:
        ctx.probe("parent_and_child_generation_in_one_run")
    ctx.state("create", code, n_new, min(max_gen, 12), same_second, "-sf" in op["argv"])
    if max_gen >= 10:
        ctx.probe("generation_number_ge_10")


GEN_LINE = re.compile(r"^\s+Generation (\d+) \(")


def final(ctx, w, steps):
    # reloading every history yields generations 1..n ascending (tool's loader via info, and independent view)
    if not os.path.isdir(os.path.join(w.root, "ascmhl")):
        return
    if any(s.res is not None and s.res.aborted for s in steps):
        return
    r = w.run_cmd(["info", w.root])
    ctx.evaluations += 1
    if r.outcome != ("exit", 0):
        if r.outcome[0] == "exit" and r.outcome[1] in (31, 32, 33):
            ctx.violate({"kind": "history-does-not-reload", "cause": r.brief()}, r.stderr[-300:])
        return
    sections = []
    cur = None
    for line in r.stdout.split("\n"):
        if line.startswith("Info with history") or line.startswith("Child History at"):
            cur = []
            sections.append(cur)
        else:
            m = GEN_LINE.match(line)
            if m and cur is not None:
                cur.append(int(m.group(1)))
    for nums in sections:
        if nums != list(range(1, len(nums) + 1)):
            ctx.violate({"kind": "generations-not-1..n", "cause": "info"}, f"info lists {nums}")
            return
    for hr in observe.find_histories(w.root):
        hv = observe.HistoryView(hr)
        if hv.error:
            continue
        nums = hv.numbers()
        if nums != list(range(1, len(nums) + 1)):
            ctx.violate({"kind": "generations-not-1..n", "cause": "disk"}, f"{hr}: {nums}")
            return
        if [c["seq"] for c in hv.chain] != [str(n) for n in nums]:
            ctx.violate({"kind": "chain-numbers-mismatch"}, f"{hr}: chain {[c['seq'] for c in hv.chain]} manifests {nums}")
            return


def execute(sc, ctx):
    explore.run(sc, ctx, monitor, final)


shrink_candidates = explore.shrink_candidates
