"""C20 -- The background update check can never change or stall a command."""

import os
import re

from .. import core, explore, gen, observe, scen, simthread
from ..driver import ddmin_list

CONFIG = {
    "level": "exploration",
    "level_text": ("Schedule and network-fault exploration: the real click groups (ascmhl / ascmhl-debug) are imported inside "
                   "a simulated process with threading.Thread replaced by a baton-passing SimThread, so the real Updater "
                   "starts at import exactly as in production; requests.get is a simulated server (immediate / delayed / "
                   "late / never answering; newer, equal, older, pre-release, dev, 'v'-prefixed, garbage, null or missing "
                   "tag; JSON list/string/number; non-JSON body; HTTP 403/404/500; connection, timeout and SSL errors; a "
                   "non-requests exception; response bodies that arrive later than the headers or never complete; optionally a different behaviour for every further request of the process). A seeded scheduler decides the interleaving at Thread.start, requests.get "
                   "entry/exit, join, thread exit, every file-system effect of the command and every source line of "
                   "ascmhl/cli/*.py; join(timeout) blocks in virtual time. A twin run of the same command without the "
                   "updater on an identical world gives the reference exit code, stdout and duration."),
    "level_note": ("stderr is not judged; timestamps inside stdout are normalised before comparison; real-time hangs of the "
                   "simulator itself are harness errors, virtual deadlocks (no runnable task, no pending event) are "
                   "reported as 'never terminates'."),
    "technique": "deterministic simulation: seeded thread interleavings (baton passing, line-level pre-emption) x simulated network faults, twin-run oracle in virtual time",
    "quick": {"runs": 2560, "budget_s": 90},
    "thorough": {"runs": 12000, "budget_s": 540},
    "rule": ("one run = small world + one command through the real CLI group under one network script and one seeded "
             "schedule, plus its twin; one evaluation = that pair. Distinct = hash of the (reason, task) schedule sequence "
             "together with (network kind, latency class, command, exit); non-trivial = the updater thread was scheduled at "
             "least once between other tasks' steps (schedule has >= 2 task switches)."),
    "components": {
        "real": ["ascmhl.cli.update.Updater, ascmhl.cli.ascmhl / ascmhl_debug click groups and result callbacks",
                 "ascmhl.commands.*", "click", "packaging.version", "real OS threads (one runs at a time)"],
        "stub": ["threading.Thread -> SimThread (baton passing, virtual join timeout)", "requests.get -> simulated server",
                 "virtual clock (jumps to the next event when nothing is runnable)", "fs seams as in the other checks"],
    },
}

NOTICE = "Please update to the latest ascmhl version using `pip3 install -U ascmhl`."
LAT = [0, 1_000, 200_000, 990_000, 999_999, 1_000_001, 1_010_000, 5_000_000, None]


def gen_net(rng):
    net = gen_net1(rng)
    if net["kind"] != "exc" and rng.random() < 0.2:
        # status line and headers arrive after latency_us, the body trickles in later (or never completes)
        net["body_latency_us"] = rng.choice([1_000, 500_000, 999_000, 1_500_000, 4_000_000, None])
        if rng.random() < 0.6:
            net["latency_us"] = rng.choice([0, 1_000, 200_000])
    if rng.random() < 0.3:
        # a different behaviour for every further request of the same process (retries, redirects followed by hand ...)
        net["then"] = [gen_net1(rng) for _ in range(rng.randint(1, 2))]
        if rng.random() < 0.5:
            net["latency_us"] = rng.choice([0, 1_000, 200_000])  # the first attempt fails / answers fast
    return net


def gen_net1(rng):
    k = rng.random()
    lat = rng.choice(LAT)
    if k < 0.4:
        tag = rng.choice(["99.0.0", "v99.0.0", "1.0", "0.1.dev1", "0.0.1", "v0.0.1", "99.0.0rc1", "99.0.0.dev1", "99.0a1",
                          "99.0.0.post1", "banana", "", None, "1.0.0+local", "2!1.0",
                          "continuous-integration-development-snapshot", "nightly-build-from-main-branch", "release_candidate_for_testing",
                          "v" * 40, "1." * 30 + "0", "rc" * 25])
        return {"kind": "tag", "tag": tag, "latency_us": lat}
    if k < 0.45:
        return {"kind": "no_tag", "latency_us": lat}
    if k < 0.55:
        return {"kind": "json_other", "value": rng.choice([[], [1, 2], "a string", 42, None, {"tag_name": {"x": 1}}]), "latency_us": lat}
    if k < 0.65:
        return {"kind": "not_json", "exc": rng.choice(["requests", "valueerror"]), "latency_us": lat}
    if k < 0.78:
        return {"kind": "http", "status": rng.choice([403, 404, 500, 502]), "latency_us": lat}
    return {"kind": "exc", "exc": rng.choice(["ConnectionError", "ConnectTimeout", "ReadTimeout", "SSLError", "OSError", "RuntimeError"]),
            "latency_us": lat}


def generate(rng, tier):
    env = gen.gen_env(rng)
    env["clock_profile"] = "calm"
    # how long the command itself takes in simulated time: from microseconds to several seconds
    env["read_cost_us"] = rng.choice([0, 0, 2_000, 150_000, 400_000, 900_000])
    env["effect_cost_us"] = rng.choice([20, 20, 1_000, 120_000, 350_000])
    tree = gen.gen_tree(rng, max_entries=5, max_depth=1, hostile=0.1)
    env["tree"] = tree
    files = gen.tree_files(tree)
    ops = []
    if rng.random() < 0.85:
        ops.append(scen.cmd("create", "@R", *gen.fmt_args(gen.pick_formats(rng, 1, 2))))
        ops.append({"op": "advance", "us": 2_000_000})
        r = rng.random()
        if r < 0.2:
            ops.append({"op": "rewrite", "path": rng.choice(files), "seed": rng.getrandbits(20), "fault": "content_edit"})
        elif r < 0.3:
            ops.append({"op": "remove", "path": rng.choice(files), "fault": "remove_file"})
        elif r < 0.4:
            ops.append({"op": "write", "path": "extra.bin", "c": gen.unique_content(rng), "fault": "add_file"})
    k = rng.randrange(8)
    if k == 0:
        tool, argv = "ascmhl", ["create", "@R", "-h", rng.choice(observe.FORMATS)] + (["-v"] if rng.random() < 0.5 else [])
    elif k == 1:
        tool, argv = "ascmhl", ["diff", "@R"]
    elif k == 2:
        tool, argv = "ascmhl", ["info", "@R"] + (["-v"] if rng.random() < 0.3 else [])
    elif k == 3:
        tool, argv = "ascmhl", ["flatten", "@R", "@S/out"]
    elif k == 4:
        tool, argv = "ascmhl-debug", ["verify", "@R"] + (["-v"] if rng.random() < 0.5 else [])
    elif k == 5:
        tool, argv = "ascmhl-debug", ["hash", "@R/" + rng.choice(files), "-h", rng.choice(observe.FORMATS)]
    elif k == 6:
        tool, argv = "ascmhl-debug", ["verify", "@R", "-dh"]
    else:
        tool, argv = "ascmhl", ["info", "-sf", "@R/" + rng.choice(files)]
    wall_step = None
    if rng.random() < 0.12:
        # the wall clock is corrected while the command runs (NTP step, VM resume, manual change)
        wall_step = {"at_step": rng.randint(1, 8), "us": rng.choice([-3_000_000, -3_600_000_000, -90_000_000, 5_000_000, 3_600_000_000])}
        # (the step changes the time in manifest names; the simulator's read chunking is keyed by file name, so reads
        # must cost nothing here or the twin's duration would differ for a reason that has nothing to do with the check)
        env["read_cost_us"] = 0
    return {"world": env, "ops": ops, "tool": tool, "argv": argv, "net": gen_net(rng), "wall_step": wall_step,
            "sched_seed": rng.getrandbits(32), "preempt": rng.choice([0, 50, 300, 300, 700])}


TS1 = re.compile(r"\d{4}-\d{2}-\d{2}_\d{6}Z")
TS2 = re.compile(r"\d{4}-\d{2}-\d{2}T\d{2}:\d{2}:\d{2}(\.\d+)?[+-]\d{2}:\d{2}")


def norm(text, w):
    text = text.replace(w.sandbox, "<SB>")
    text = TS1.sub("<TS>", text)
    text = TS2.sub("<ISO>", text)
    return text


def notice_allowed(net):
    return any(_notice_allowed1(n) for n in [net] + list(net.get("then") or []))


def _notice_allowed1(net):
    if net["kind"] != "tag" or not isinstance(net.get("tag"), str):
        return False
    from packaging import version

    try:
        v = version.parse(net["tag"])
    except Exception:
        return False
    cur = version.parse(_current_version())
    return v > cur and not v.is_prerelease and not v.is_devrelease


def _current_version():
    import ascmhl.__version__ as V

    return V.ascmhl_tool_version


def execute(sc, ctx):
    w = core.World(sc["world"], ctx.subdir("main"))
    results = scen.run_ops(w, sc["ops"], ctx)
    if any(res is not None and res.aborted for _, res, _ in results):
        ctx.probe("setup_aborted_na")
        return
    argv = [w.expand(a) for a in sc["argv"]]
    # twin: the command itself, without the CLI group / updater, on an identical world
    wt = core.clone_world(w, ctx.subdir())
    argv_t = [wt.expand(a) for a in sc["argv"]]
    t = wt.run_cmd(argv_t)
    t_elapsed = t.end_us - t.start_us
    t_exit = t.outcome[1] if t.outcome[0] == "exit" else "abort:" + t.extra.get("abort_type", "?")
    r = w.run_child(("pyfunc", simthread.run_cli_job, (sc["tool"], argv, sc["net"], sc["sched_seed"], sc["preempt"], sc.get("wall_step"))), timeout=25)
    ctx.evaluations += 1
    ctx.steps += 1
    if r.outcome[0] == "hang":
        # the simulated process burnt 25 s of real CPU time on a command whose twin needs milliseconds: a stall that
        # virtual time cannot see (e.g. catastrophic backtracking while the GIL is held)
        ctx.violate({"kind": "real-time-stall", "net": sc["net"]["kind"]},
                    f"{sc['tool']} {sc['argv']} net {sc['net']}: no result after 25 s of real time (twin: {t.brief()} in {t_elapsed} us virtual)")
        return
    if r.outcome[0] != "exit" or not isinstance(r.value, dict):
        raise core.HarnessError(f"cli job failed: {r.outcome} {r.extra.get('abort_tb', '')[-800:]}")
    v = r.value
    net = sc["net"]
    lat = net.get("latency_us")
    if "body_latency_us" in net and net["kind"] != "exc":
        lat = None if (lat is None or net["body_latency_us"] is None) else lat + net["body_latency_us"]
        ctx.fault("slow_response_body")
    lat_class = "never" if lat is None else "before-timeout" if lat < 1_000_000 else "after-timeout"
    switches = sum(1 for a, b in zip(v["schedule"], v["schedule"][1:]) if a[1] != b[1])
    sched_hash = core.h64(tuple(map(tuple, v["schedule"])))
    ctx.note("cli", sc["tool"], sc["argv"], net, v["exit"], v["terminated"], v["elapsed_us"], sched_hash)
    dur_class = "<1ms" if t_elapsed < 1000 else "<1s" if t_elapsed < 1_000_000 else ">=1s"
    if t_elapsed >= 1_000_000:
        ctx.probe("command_runs_longer_than_one_second")
    ctx.state(sched_hash, net["kind"], lat_class, sc["argv"][0], str(v["exit"]), dur_class)
    if switches >= 2:
        ctx.nontrivial = True
    ctx.fault("net_" + net["kind"] + ("_" + str(net.get("exc") or net.get("status") or "") if net["kind"] in ("exc", "http") else ""))
    ctx.fault("latency_" + lat_class)
    if v["line_events"]:
        ctx.fault("preemption_points", v["line_events"])
    desc = (f"{sc['tool']} {sc['argv']} net {net} preempt {sc['preempt']}: exit {v['exit']} (twin {t_exit}), elapsed "
            f"{v['elapsed_us']}us (twin {t_elapsed}us), terminated {v['terminated']}")
    if v["virtual_hang"] or not v["terminated"]:
        ctx.violate({"kind": "never-terminates", "cause": "main-blocked" if v["virtual_hang"] else "non-daemon-thread-blocked",
                     "latency": lat_class}, desc + f" tasks {v['updater_states']}")
        return
    if v["exit"] != t_exit:
        ctx.violate({"kind": "exit-code-changed", "cause": f"{v['exit']}-instead-of-{t_exit}", "net": net["kind"]},
                    desc + " " + r.stderr[-300:])
        return
    out, ref = norm(r.stdout, w), norm(t.stdout, wt)
    allowed = notice_allowed(net)
    if out == ref:
        pass
    elif out == ref + NOTICE + "\n":
        ctx.probe("update_notice_printed")
        if not allowed:
            ctx.violate({"kind": "notice-for-non-newer-version", "net": net["kind"]}, desc + f" tag {net.get('tag')!r}")
            return
    else:
        ctx.violate({"kind": "stdout-changed", "net": net["kind"], "cause": "notice-misplaced" if NOTICE in out else "other"},
                    desc + f"\n--- with updater:\n{out[-500:]}\n--- command alone:\n{ref[-500:]}")
        return
    delay = v["elapsed_us"] - t_elapsed
    if delay > 1_050_000:
        ctx.violate({"kind": "termination-delayed", "cause": f">{delay // 1_000_000}s", "latency": lat_class},
                    desc + f": update check delayed termination by {delay} us")
        return
    if r.extra.get("wall_clock_stepped"):
        ctx.fault("wall_clock_step_" + ("back" if r.extra["wall_clock_stepped"] < 0 else "forward"))
    if v["jumps_us"] > 0:
        ctx.probe("main_waited_in_join")
    if lat is not None and v["main_end_us"] is not None and r.extra.get("net_delivered_at") and \
            r.extra["net_delivered_at"] >= v["main_end_us"] - 1:
        ctx.probe("answer_delivered_at_or_after_join_timeout")
    if lat is None:
        ctx.probe("server_never_answers")
    ctx.sim_us += v["elapsed_us"]
    ctx.absorb_world(w)
    ctx.absorb_world(wt)
    ctx.sample = {"tool": sc["tool"], "argv": sc["argv"], "net": net, "preempt": sc["preempt"], "schedule_head": v["schedule"][:12],
                  "exit": v["exit"], "elapsed_us": v["elapsed_us"]}


def shrink_candidates(sc):
    for ops in ddmin_list(sc["ops"]):
        yield dict(sc, ops=ops)
    if sc["preempt"]:
        yield dict(sc, preempt=0)
    if sc.get("wall_step"):
        yield dict(sc, wall_step=None)
    if sc["net"].get("then"):
        yield dict(sc, net={k: v for k, v in sc["net"].items() if k != "then"})
        yield dict(sc, net=dict(sc["net"], then=sc["net"]["then"][:1]))
    for tree in gen.shrink_tree_candidates(sc["world"]["tree"], {a[3:] for a in sc["argv"] if a.startswith("@R/")}):
        yield dict(sc, world=dict(sc["world"], tree=tree))
    for key, val in (("tz", "UTC0"), ("enum_profile", "sorted"), ("read_profile", "full")):
        if sc["world"].get(key) != val:
            yield dict(sc, world=dict(sc["world"], **{key: val}))
