"""C13 -- Results do not depend on where the tree is mounted or how the OS lists it."""

import os

from .. import core, explore, gen, observe, scen
from ..driver import ddmin_list

CONFIG = {
    "level": "exploration",
    "level_text": ("Twin-world simulation: one operation list (2..5 creates over nested layouts, -sf, ignore patterns) is "
                   "executed in two worlds that hold byte-identical trees with identical modification times under the same "
                   "frozen clock but differ in the mount location (ancestor folders called 'ascmhl', '.DS_Store', a name "
                   "matching a user pattern of the run, names with spaces / non-ASCII), in the spelling of the root argument "
                   "(absolute, trailing slash, relative to cwd, './x/', '.') and in the directory-enumeration schedule "
                   "(sorted / reversed / shuffled per call). Oracle: every file in every ascmhl folder is byte-identical in "
                   "both worlds; afterwards the sealed tree is copied to a third location and must verify with exit 0."),
    "level_note": ("PYTHONHASHSEED is the same for both twins of a run (it differs between workers); the root folder's own "
                   "name is identical in both worlds (it is part of the manifest file names) - patterns matching the root's "
                   "own name are covered by C02/C12."),
    "technique": "deterministic simulation: twin worlds differing only in mount point / root spelling / enumeration schedule, byte comparison of histories",
    "quick": {"runs": 1000, "budget_s": 120},
    "thorough": {"runs": 5000, "budget_s": 540},
    "rule": ("one run = one op list in two worlds + verify on a relocated copy; one evaluation = one compared pair of commands. "
             "Distinct = (mount class, spelling, enum profile, #nested histories, patterns used, -sf used); non-trivial = "
             "the twin differs from the reference world in at least one dimension and at least one manifest was written."),
}

MOUNTS = [["x"], ["ascmhl"], ["ASCMHL"], [".DS_Store"], ["my data"], ["ünï"], ["ascmhl", "inner"], ["a", "ascmhl", "b"],
          ["PATTERN"], ["PATTERN", "deep"], ["x.bak"], ["cache"], ["tmp_mount"], ["Reel [A01]"], ["x[1]", "y"], ["a*b"],
          ["q?"], ["{c}"], ["100%"], ["~"], ["$HOME"], ["back\\slash"]]
SPELLINGS = ["abs", "abs_slash", "rel", "dot_rel", "dot"]
PATTERNS = ["*.bak", "tmp*", "cache/", "notes", "cache", "sub", "*.xml"]


def generate(rng, tier):
    env = gen.gen_env(rng)
    env["clock_profile"] = "frozen"
    env["effect_cost_us"] = 0
    env["enum_profile"] = "sorted"
    tree = gen.gen_tree(rng, max_entries=10, max_depth=3, hostile=0.1)
    if rng.random() < 0.2:
        # canonically equivalent twin names in one folder (legal on ext4 / tmpfs / APFS): the order of the two must
        # not depend on how the OS enumerates them
        parent = rng.choice([""] + gen.tree_dirs(tree))
        for a, b in rng.sample([("caf\u00e9.txt", "cafe\u0301.txt"), ("\u212b.dat", "\u00c5.dat"), ("u\u0308 d", "\u00fc d")], 1):
            for n in (a, b):
                rel = (parent + "/" if parent else "") + n
                if n.endswith(" d"):
                    tree[rel] = {"t": "d"}
                    tree[rel + "/f.bin"] = {"t": "f", "c": gen.unique_content(rng)}
                else:
                    tree[rel] = {"t": "f", "c": gen.unique_content(rng)}
    env["tree"] = tree
    pat = rng.choice(PATTERNS)
    nested = scen.subroots_of(tree, rng, 3) if rng.random() < 0.6 else []
    ops = []
    order = list(nested)
    rng.shuffle(order)
    for sub in order:
        ops.append(scen.cmd("create", scen.root_arg(sub), *gen.fmt_args(gen.pick_formats(rng, 1, 2))))
        ops.append({"op": "advance", "us": rng.choice([1_000_000, 5_000_000])})
    for g in range(rng.randint(1, 3)):
        args = gen.fmt_args(gen.pick_formats(rng, 1, 2))
        files = gen.tree_files(tree)
        if g > 0 and files and rng.random() < 0.25:
            args += ["-sf", "@R/" + rng.choice(files)]
        else:
            if rng.random() < 0.5:
                args += ["-i", pat]
            if rng.random() < 0.1:
                args.append("-n")
        ops.append(scen.cmd("create", "@R", *args))
        ops.append({"op": "advance", "us": rng.choice([1_000_000, 3_600_000_000])})
    files_now = gen.tree_files(tree)
    if files_now and rng.random() < 0.3:
        # a rename recorded with -dr, then one more generation: the rename map must work for every spelling of the root
        src = rng.choice(files_now)
        dst = os.path.join(os.path.dirname(src), "renamed_%d.bin" % rng.randrange(99))
        fm = gen.fmt_args(gen.pick_formats(rng, 1, 1))
        ops += [scen.cmd("create", "@R", *fm), {"op": "advance", "us": 1_000_000},
                {"op": "rename", "src": src, "dst": dst, "fault": "rename_file"},
                scen.cmd("create", "@R", "-dr", *fm), {"op": "advance", "us": 1_000_000},
                scen.cmd("create", "@R", *fm), {"op": "advance", "us": 1_000_000}]
    if rng.random() < 0.2:
        # rename detection among entries of equal content: several missing paths and / or several new paths carry the
        # same digest; which previous path is written must not depend on where the root lives
        c = gen.unique_content(rng)
        dirs_ = [""] + gen.tree_dirs(tree)
        fm = gen.fmt_args(gen.pick_formats(rng, 1, 1))
        k = rng.randrange(3)
        olds = ["dup_old_1.bin"] if k == 0 else [rng.choice(dirs_) + "/dup_old_1.bin", rng.choice(dirs_) + "/dup_old_2.bin", "dup_old_3.bin"][: rng.randint(2, 3)]
        news = [rng.choice(dirs_) + "/dup_new_a.bin", rng.choice(dirs_) + "/dup_new_b.bin"][: (2 if k != 1 else 1)]
        olds = sorted({o.lstrip("/") for o in olds})
        news = sorted({n.lstrip("/") for n in news})
        pre = [{"op": "write", "path": o, "c": c, "fault": "add_file"} for o in olds]
        post = [{"op": "remove", "path": o, "fault": "remove_file"} for o in olds] + \
               [{"op": "write", "path": n, "c": c, "fault": "add_file"} for n in news]
        ops += pre + [scen.cmd("create", "@R", *fm), {"op": "advance", "us": 1_000_000}] + post + \
               [scen.cmd("create", "@R", "-dr", *fm), {"op": "advance", "us": 1_000_000}]
    mount = rng.choice(MOUNTS)
    mount = [pat.strip("/*") + ("x" if "*" in pat and pat.startswith("tmp") else "") if m == "PATTERN" else m for m in mount]
    mount = [m if m else "pp" for m in mount]
    if "PATTERN" in rng.choice(MOUNTS) and pat == "*.bak":
        mount = ["old.bak"]
    twin = {"mount": mount, "root_spelling": rng.choice(SPELLINGS), "symlink_mount": rng.random() < 0.15,
            "enum_profile": rng.choice(["sorted", "reverse", "shuffle", "shuffle", "dirs-last-reverse"])}
    return {"world": env, "ops": ops, "twin": twin}


def _asc_rel(world):
    """{path relative to the root: bytes} of all files in ascmhl folders below the root (through a symlinked mount too)"""
    real = os.path.realpath(world.root)
    out = {}
    for d, subs, files in os.walk(real):
        if os.path.basename(d) == "ascmhl":
            for f in files:
                out[os.path.relpath(os.path.join(d, f), real)] = observe.read_bytes(os.path.join(d, f))
    return out


def _mount_class(mount, pats):
    import pathspec

    spec = pathspec.PathSpec.from_lines("gitwildmatch", pats + observe.default_patterns())
    if any(m in ("ascmhl", ".DS_Store") for m in mount):
        return "default-pattern-ancestor"
    if any(spec.match_file(m) or spec.match_file(m + "/") for m in mount):
        return "user-pattern-ancestor"
    if any(c in m for m in mount for c in "[]*?{}"):
        return "glob-special-name"
    if any(" " in m or any(ord(c) > 127 for c in m) for m in mount):
        return "hostile-name"
    return "plain"


def execute(sc, ctx):
    wa = core.World(sc["world"], ctx.subdir("A"))
    spec_b = dict(sc["world"])
    spec_b.update(sc["twin"])
    wb = core.World(spec_b, ctx.subdir("B"))
    pats = []
    used_sf = False
    n_written = 0
    for op in sc["ops"]:
        if not scen.is_cmd(op):
            wa.apply_env(op)
            wb.apply_env(op)
            continue
        ra, _ = scen.run_op(wa, op)
        rb, _ = scen.run_op(wb, op)
        ctx.steps += 2
        ctx.evaluations += 1
        argv = op["argv"]
        pats += [argv[i + 1] for i, a in enumerate(argv) if a == "-i"]
        used_sf |= "-sf" in argv
        ctx.note("cmd", argv, ra.outcome, rb.outcome)
        if ra.outcome[0] != "exit" or ra.outcome[1] not in (0,):
            ctx.probe("reference_world_command_failed_na")
            return
        if rb.outcome != ra.outcome:
            ctx.violate({"kind": "outcome-depends-on-location", "cause": f"{ra.brief()}-vs-{rb.brief()}",
                         "mount": _mount_class(sc["twin"]["mount"], pats), "spelling": sc["twin"]["root_spelling"]},
                        f"{argv}: {ra.brief()} in reference world, {rb.brief()} under mount {sc['twin']['mount']} "
                        f"spelling {sc['twin']['root_spelling']} enum {sc['twin']['enum_profile']}: {rb.stderr[-300:]}"
                        f"{rb.extra.get('abort_tb', '')[-300:]}")
            return
        fa, fb = _asc_rel(wa), _asc_rel(wb)
        n_written = len(fa)
        if sorted(fa) != sorted(fb):
            ctx.violate({"kind": "history-files-differ", "cause": "names", "mount": _mount_class(sc["twin"]["mount"], pats)},
                        f"{argv}: files {sorted(set(fa) ^ set(fb))[:4]} exist in one world only; twin {sc['twin']}")
            return
        for k in sorted(fa):
            if fa[k] != fb[k]:
                cause = _diff_cause(fa[k], fb[k])
                ctx.violate({"kind": "history-bytes-differ", "cause": cause, "mount": _mount_class(sc["twin"]["mount"], pats),
                             "enum": "sorted" if sc["twin"]["enum_profile"] == "sorted" else "permuted"},
                            f"{argv}: {k} differs between the worlds ({cause}); twin {sc['twin']}")
                return
    mclass = _mount_class(sc["twin"]["mount"], pats)
    if n_written:
        ctx.nontrivial = True
    nested = len(observe.find_histories(wa.root)) - 1
    ctx.state(mclass, sc["twin"]["root_spelling"], sc["twin"]["enum_profile"], min(nested, 3), bool(pats), used_sf)
    ctx.probe("mount_" + mclass)
    # relocated copy verifies (only demanded when the tree verifies in place, i.e. the op list sealed all of it)
    in_place = wa.run_cmd(["verify", wa.root])
    if in_place.outcome != ("exit", 0):
        ctx.probe("tree_not_fully_sealed_relocation_na")
        ctx.absorb_world(wa)
        ctx.absorb_world(wb)
        return
    for src in (wa, wb):
        dst_parent = ctx.subdir()
        # (the copy's own folder may be called anything at its new place, also like a history folder)
        new_name = src.spec["rootname"]
        if core.h64(sc["world"].get("env_seed", 1), "relocated-name", src is wb) % 4 == 0:
            new_name = ["ascmhl", ".DS_Store", "ASCMHL"][core.h64(sc["world"].get("env_seed", 1), "rn") % 3]
        dst = os.path.join(dst_parent, "w", "relocated [copy] here" if src is wb else "relocated here", new_name)
        os.makedirs(os.path.dirname(dst))
        core.copy_world_tree(src.root, dst)
        wc = core.World.__new__(core.World)
        wc.__dict__.update(src.__dict__)
        wc.sandbox, wc.base = dst_parent, os.path.join(dst_parent, "w")
        wc.mount, wc.root = os.path.dirname(dst), dst
        wc.spec = dict(src.spec, root_spelling="abs")
        r = wc.run_cmd(["verify", dst])
        ctx.evaluations += 1
        if not observe.HistoryView(src.root).generations:
            break
        if r.outcome != ("exit", 0):
            ctx.violate({"kind": "relocated-copy-does-not-verify", "cause": r.brief()},
                        f"copy of world {'A' if src is wa else 'B'} verifies with {r.brief()}: {r.stderr[-300:]}")
            return
    ctx.absorb_world(wa)
    ctx.absorb_world(wb)
    ctx.fault("mount_relocation")
    ctx.fault("enum_order_" + sc["twin"]["enum_profile"])
    ctx.fault("root_spelling_" + sc["twin"]["root_spelling"])
    if sc["twin"].get("symlink_mount"):
        ctx.fault("mount_through_symlink")
    ctx.sample = {"ops": [o["argv"] for o in sc["ops"] if scen.is_cmd(o)][:5], "twin": sc["twin"]}


def _diff_cause(a, b):
    try:
        ma, mb = observe.read_manifest_bytes(a), observe.read_manifest_bytes(b)
    except Exception:
        return "chain-or-unparsable"
    if [r["path"] for r in ma["records"]] != [r["path"] for r in mb["records"]]:
        if sorted(str(r["path"]) for r in ma["records"]) == sorted(str(r["path"]) for r in mb["records"]):
            return "record-order"
        return "record-set"
    if ma["references"] != mb["references"]:
        if sorted(map(str, ma["references"])) == sorted(map(str, mb["references"])):
            return "reference-order"
        return "references"
    if ma["patterns"] != mb["patterns"]:
        return "patterns"
    return "other"


def shrink_candidates(sc):
    for ops in ddmin_list(sc["ops"], 1):
        yield dict(sc, ops=ops)
    protected = set()
    for o in sc["ops"]:
        if scen.is_cmd(o):
            for a in o["argv"]:
                if isinstance(a, str) and a.startswith("@R/"):
                    protected.add(a[3:])
    for tree in gen.shrink_tree_candidates(sc["world"]["tree"], protected):
        yield dict(sc, world=dict(sc["world"], tree=tree))
    for key, val in (("root_spelling", "abs"), ("enum_profile", "sorted"), ("mount", ["m"]), ("symlink_mount", False)):
        if sc["twin"].get(key) != val:
            yield dict(sc, twin=dict(sc["twin"], **{key: val}))
    for key, val in (("tz", "UTC0"), ("read_profile", "full")):
        if sc["world"].get(key) != val:
            yield dict(sc, world=dict(sc["world"], **{key: val}))
