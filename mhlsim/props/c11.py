"""C11 -- Every file the tool writes is valid against the published schemas."""

import os

from .. import core, explore, observe, scen

CONFIG = {
    "level": "exploration",
    "level_text": ("Seeded swarm over option combinations (-h x1..6 and repeated, -n, -sf, -dr with renames, -i/-ii, creator "
                   "options, empty folders, nested parents that receive only references, runs ending 10/11, flatten incl. "
                   "twice into one destination) with a monitor that validates every manifest and every chain/collection "
                   "file written by each step against the XSDs shipped in the working tree."),
    "level_note": "lxml's XMLSchema validator and the shipped XSD files are trusted; e-mail options are generated syntactically valid.",
    "technique": "deterministic simulation: seeded option/history swarm with an XSD-validation monitor on every file written",
    "quick": {"runs": 2000, "budget_s": 120},
    "thorough": {"runs": 8000, "budget_s": 540},
    "rule": ("one run = random world (incl. empty folders and empty trees) + 3..12 operations; one evaluation = one executed "
             "command. Distinct = (command, option-set class, exit code, #manifests written, has-empty-record-list, "
             "has-references, has-previousPath); non-trivial = a step that wrote at least one XML file."),
}

WEIGHTS = {"p_create": 0.5, "p_edit": 0.2, "p_ro": 0.03, "nested": 0.55, "sf": 0.3, "n": 0.2, "dr": 0.25, "i": 0.25,
           "ii": 0.1, "creator": 0.5}


def generate_chain_rename(rng):
    """a chain of nested histories (root > A > A/B [> A/B/C]) whose innermost / middle folder is renamed before a
    create -dr on the outer root: previous paths of the renamed history root at every nesting depth"""
    from .. import gen

    env = gen.gen_env(rng)
    tree = gen.gen_tree(rng, max_entries=5, max_depth=2, hostile=0.1)
    depth = rng.choice([2, 3, 3])
    chain = ["A", "A/B", "A/B/C"][:depth]
    for d in chain:
        tree.setdefault(d, {"t": "d"})
        tree.setdefault(d + "/f_%d.bin" % len(d), {"t": "f", "c": gen.unique_content(rng)})
    if rng.random() < 0.3:
        tree.setdefault("A/AA", {"t": "d"})
        tree.setdefault("A/AA/x.txt", {"t": "f", "c": gen.unique_content(rng)})
    env["tree"] = tree
    fm = gen.fmt_args(gen.pick_formats(rng, 1, 2))
    ops = []
    for d in reversed(chain):
        if rng.random() < 0.85:
            ops.append(scen.cmd("create", "@R/" + d, *fm))
    ops += [scen.cmd("create", "@R", *fm), {"op": "advance", "us": 1_000_000}]
    d = rng.choice(chain)
    ops.append({"op": "rename", "src": d, "dst": d + "2", "fault": "rename_history_root"})
    ops.append(scen.cmd("create", "@R", "-dr", *fm, *(["-n"] if rng.random() < 0.15 else [])))
    ops.append(scen.cmd("create", "@R", *fm))
    return {"world": env, "ops": ops}


def generate_many_records(rng):
    """one generation (and one packing list) with more than two thousand records, spread over ten folders"""
    from .. import gen

    env = gen.gen_env(rng)
    env["read_profile"] = "full"
    tree = {}
    n = rng.randint(2001, 2060)
    for i in range(n):
        d = "reel_%02d" % (i % 10)
        tree.setdefault(d, {"t": "d"})
        tree["%s/frame_%06d.dpx" % (d, i)] = {"t": "f", "c": {"gen": [i, 9]}}
    env["tree"] = tree
    fm = ["-h", rng.choice(["md5", "xxh64"])]
    return {"world": env, "ops": [scen.cmd("create", "@R", *fm), scen.cmd("flatten", "@R", "@S/flat")]}


def generate(rng, tier):
    if rng.random() < 0.05:
        return generate_chain_rename(rng)
    if rng.random() < 0.004:
        return generate_many_records(rng)
    sc = explore.generate(rng, tier, WEIGHTS, hostile=0.25)
    if rng.random() < 0.15:
        # a folder (or file) renamed between two generations sealed with the same format and -dr: previous paths of
        # directory records and file records
        from .. import gen

        tree = sc["world"]["tree"]
        fm = gen.fmt_args(gen.pick_formats(rng, 1, 2))
        dirs = [d for d in gen.tree_dirs(tree)]
        tail = [scen.cmd("create", "@R", *fm), {"op": "advance", "us": 1_000_000}]
        if dirs and rng.random() < 0.7:
            d = rng.choice(dirs)
            tail.append({"op": "rename", "src": d, "dst": os.path.join(os.path.dirname(d), "renamed dir %d" % rng.randrange(99)), "fault": "rename_dir"})
        files = gen.tree_files(tree)
        if files and rng.random() < 0.5:
            f = rng.choice(files)
            tail.append({"op": "rename", "src": f, "dst": f + ".ren", "fault": "rename_file"})
        tail.append(scen.cmd("create", "@R", "-dr", *fm, *(["-n"] if rng.random() < 0.15 else [])))
        sc["ops"] += tail
    if rng.random() < 0.05:
        # a run that fails while the manifest is being serialised (a name or comment XML 1.0 cannot carry): whatever it
        # leaves behind under a manifest name must still be a valid manifest
        k = rng.randrange(2)
        if k == 0:
            sc["ops"] += [{"op": "write", "path": "bad\x1fname.mov", "c": {"text": "x" * 9}, "fault": "add_file_with_control_char"},
                          scen.cmd("create", "@R", "-h", "md5"), scen.cmd("create", "@R", "-h", "md5")]
        else:
            sc["ops"] += [scen.cmd("create", "@R", "-h", "md5", "--comment", "vertical\x0btab")]
    if rng.random() < 0.12:
        # (nearly) empty worlds: empty root folder or only empty directories
        sc["world"]["tree"] = {} if rng.random() < 0.5 else {"E": {"t": "d"}, "E/F": {"t": "d"}}
        sc["ops"] = [o for o in sc["ops"] if not (scen.is_cmd(o) and any(a.startswith("@R/") for a in o["argv"]))]
        sc["ops"].insert(0, scen.cmd("create", "@R"))
    return sc


def _classify(msg):
    m = msg or ""
    if "hashes" in m and "Missing child element" in m:
        return "empty-hashes"
    for key in ("not well-formed", "Missing child element", "This element is not expected", "is not a valid value",
                "not accepted by the pattern", "attribute"):
        if key in m:
            return key
    return "other"


def monitor(ctx, st):
    op, res = st.op, st.res
    name = op["argv"][0]
    if name not in ("create", "flatten"):
        return
    if res.outcome[0] == "killed":
        return
    added, removed, changed = core.snapshot_diff(st.pre, st.post)
    n_xml = 0
    flags = set()
    for rel in added + changed:
        p = os.path.join(st.world.sandbox, rel)
        b = os.path.basename(rel)
        if not os.path.isfile(p):
            continue
        kind = None
        if b.endswith(".mhl"):
            kind = "manifest"
        elif b in ("ascmhl_chain.xml", "ascmhl_collection.xml"):
            kind = "directory"
        if kind is None:
            continue
        n_xml += 1
        err = observe.xsd_validate(p, kind)
        if err:
            ctx.violate({"kind": f"invalid-{kind}", "cause": _classify(err), "cmd": name},
                        f"{rel} written by {op['argv']} (exit {res.brief()}): {err}")
            return
        if kind == "manifest":
            try:
                m = observe.read_manifest(p)
                if not m["records"]:
                    flags.add("no-records")
                if m["references"]:
                    flags.add("refs")
                if any(r.get("previousPath") for r in m["records"]):
                    flags.add("prev")
            except Exception:
                pass
    if n_xml:
        ctx.nontrivial = True
    if "no-records" in flags:
        ctx.probe("manifest_without_records")
    if "refs" in flags and "no-records" in flags:
        ctx.probe("parent_with_only_references")
    if "prev" in flags:
        ctx.probe("previousPath_written")
    if res.outcome in (("exit", 10), ("exit", 11)):
        ctx.probe("failing_run_wrote_files" if n_xml else "failing_run")
    opts = tuple(sorted({a for a in op["argv"] if a.startswith("-")}))
    ctx.state(name, opts, res.brief(), n_xml, tuple(sorted(flags)))


def execute(sc, ctx):
    explore.run(sc, ctx, monitor, want_asc=False)


shrink_candidates = explore.shrink_candidates
