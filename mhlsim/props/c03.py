"""C03 -- Verification reports every discrepancy and never a false one."""

import os
import re

from .. import core, explore, gen, observe, scen
from ..driver import ddmin_list

CONFIG = {
    "level": "exploration",
    "level_text": ("Seeded exploration with fault sequences: a random tree is sealed into a history of 1..4 generations (random "
                   "format sets, flat or nested, optional ignore patterns), then a set of 0..4 mutations is applied (bit flip, "
                   "same-size overwrite, append, truncate of recorded files in root or nested histories; removal of files and "
                   "empty directories; new files in existing and new directories; mtime changes; edits of ignored files) and "
                   "verify, diff and create each run on their own copy of the world. The expected exit code and the exact "
                   "sets of paths reported as mismatching / missing / new are derived from the difference between the sealed "
                   "disk image and the mutated one (snapshots), never from the tool's output or the op list."),
    "level_note": ("Faults never touch ascmhl folders (C05's domain). diff is not judged on content changes; where the statement "
                   "gives two admissible codes (diff with additions and removals) both are accepted; reported names are "
                   "compared modulo surrounding blanks because the log format separates fields by runs of blanks."),
    "technique": "deterministic simulation: seeded histories + fault sets; exit-code and reported-path oracle from snapshot differences",
    "quick": {"runs": 1200, "budget_s": 120},
    "thorough": {"runs": 6000, "budget_s": 540},
    "rule": ("one run = sealed world + mutation set, three commands on three copies; one evaluation = one judged command. "
             "Distinct = (command, classes of differences present content/removed-file/removed-dir/added/none, nested depth of "
             "the affected entry, #generations, patterns present, exit); non-trivial = the mutated tree differs from the sealed "
             "one in a way the statement speaks about, or the control case on an untouched history of >= 2 generations."),
}

IGNORABLE = {"*.bak": "x.bak", "cache/": "cache/c1", "notes": "notes", "tmp*": "tmp_1"}


def generate_early_removal(rng):
    """the outer history records a folder's files; one of them disappears; only then does the folder get a history of
    its own (which therefore never records that file); the outer root is judged: the file is still missing"""
    env = gen.gen_env(rng)
    tree = gen.gen_tree(rng, max_entries=5, max_depth=2, hostile=0.1, min_files=1)
    sub = rng.choice(["clips", "N", "x y"])
    tree[sub] = {"t": "d"}
    names = rng.sample(["a.mov", "b.mov", "c.wav", "deep/d.bin"], rng.randint(2, 3))
    for n in names:
        if "/" in n:
            tree[sub + "/deep"] = {"t": "d"}
        tree[sub + "/" + n] = {"t": "f", "c": gen.unique_content(rng)}
    env["tree"] = tree
    fm = gen.fmt_args(gen.pick_formats(rng, 1, 2))
    gone = sub + "/" + rng.choice(names)
    keep = [sub + "/" + n for n in names if sub + "/" + n != gone]
    ops = [scen.cmd("create", "@R", *fm), scen.gen_advance(rng), {"op": "remove", "path": gone, "fault": "remove_file"}]
    # (the new history is started in folder mode, so every file still there is recorded by it: after a partial start with
    # -sf the remaining files are known to the outer history only and the nested one reports them as new)
    ops.append(scen.cmd("create", "@R/" + sub, *fm))
    ops.append(scen.gen_advance(rng))
    if rng.random() < 0.4:
        ops += [scen.cmd("create", "@R", *fm), scen.gen_advance(rng)]  # (exits 10: the file is missing)
    return {"world": env, "ops": ops, "mutations": [], "judge": {"v": rng.random() < 0.3, "i": []}, "early_removal": True}


def generate_restored(rng):
    """a file is altered (other size), the alteration is found and recorded by a create (exit 11), then the original
    bytes come back: the tree equals the sealed one again and everything accepts it"""
    env = gen.gen_env(rng)
    tree = gen.gen_tree(rng, max_entries=6, max_depth=2, hostile=0.1, min_files=2, unique=True)
    env["tree"] = tree
    fm = gen.fmt_args(gen.pick_formats(rng, 1, 2))
    f = rng.choice(gen.tree_files(tree))
    ops = [scen.cmd("create", "@R", *fm), scen.gen_advance(rng)]
    k = rng.randrange(3)
    if k == 0:
        ops.append({"op": "append", "path": f, "c": gen.unique_content(rng, 11), "fault": "append"})
    elif k == 1:
        ops.append({"op": "truncate", "path": f, "size": 3, "fault": "truncate"})
    else:
        ops.append({"op": "rewrite", "path": f, "seed": rng.getrandbits(20), "fault": "overwrite_same_size"})
    ops += [scen.cmd("create", "@R", *fm), scen.gen_advance(rng),
            {"op": "write", "path": f, "c": tree[f]["c"], "m": tree[f].get("m"), "fault": "restore_content"}]
    if tree[f].get("m") is None:
        del ops[-1]["m"]
    return {"world": env, "ops": ops, "mutations": [], "judge": {"v": rng.random() < 0.3, "i": []}, "restored": True}


def generate(rng, tier):
    if rng.random() < 0.05:
        return generate_early_removal(rng)
    if rng.random() < 0.05:
        return generate_restored(rng)
    env = gen.gen_env(rng)
    tree = gen.gen_tree(rng, max_entries=9, max_depth=3, hostile=0.2, min_files=1)
    pats = []
    if rng.random() < 0.35:
        pats = rng.sample(sorted(IGNORABLE), rng.randint(1, 2))
        for p in pats:
            rel = IGNORABLE[p]
            if "/" in rel:
                tree.setdefault(rel.split("/")[0], {"t": "d"})
            tree.setdefault(rel, {"t": "f", "c": gen.unique_content(rng)})
    same_named = None
    if "cache/" in pats and rng.random() < 0.7:
        # a regular file that carries the name of an ignored FOLDER: a directory-only pattern does not apply to it
        tree.setdefault("tools", {"t": "d"})
        tree["tools/cache"] = {"t": "f", "c": gen.unique_content(rng)}
        same_named = "tools/cache"
    if rng.random() < 0.06:
        # degenerate sealed trees: no file at all, only directories, or everything ignored
        k = rng.randrange(3)
        if k == 0:
            tree = {}
        elif k == 1:
            tree = {"E": {"t": "d"}, "E/F": {"t": "d"}}
        else:
            tree = {"x.bak": {"t": "f", "c": gen.unique_content(rng)}}
            pats = ["*.bak"]
    env["tree"] = tree
    nested = scen.subroots_of(tree, rng, 2) if rng.random() < 0.45 else []
    nested = [n for n in nested if not n.startswith("cache")]
    if rng.random() < 0.12:
        # a chain of four histories, sealed bottom-up: root > A > A/B > A/B/C
        for d, f in (("A", "A/a.bin"), ("A/B", "A/B/b.bin"), ("A/B/C", "A/B/C/c1.bin"), ("A/B/C", "A/B/C/c2.bin")):
            tree.setdefault(d, {"t": "d"})
            tree.setdefault(f, {"t": "f", "c": gen.unique_content(rng)})
        tree.setdefault("A/B/C/E", {"t": "d"})
        env["tree"] = tree
        nested = sorted(set(nested) | {"A/B/C", "A/B", "A"}, key=lambda x: -x.count("/"))
    ops, info = scen.gen_history_ops(rng, tree, n_gens=rng.randint(0, 3), nested=nested, p_sf=0.2, p_n=0.15, p_edit=0.3,
                                     edit_kinds=("add",), formats_hi=3)
    if "A/B/C" in nested:
        # bottom-up order for the chain
        chain_ops = [scen.cmd("create", "@R/" + d, *gen.fmt_args(gen.pick_formats(rng, 1, 2))) for d in ("A/B/C", "A/B", "A")]
        ops = chain_ops + [o for o in ops if not (scen.is_cmd(o) and o["argv"][1] in ("@R/A/B/C", "@R/A/B", "@R/A"))]
    final = ["create", "@R"] + gen.fmt_args(gen.pick_formats(rng, 1, 3))
    for p in pats:
        final += ["-i", p]
    if rng.random() < 0.1:
        final.append("-n")
    ops.append(scen.cmd(*final))
    ops.append(scen.gen_advance(rng))
    state = info["tree_state"]
    if rng.random() < 0.25 and gen.tree_files(state):
        # a partial (-sf) generation on top of the sealed tree: the tree stays sealed, patterns must survive
        ops.append(scen.cmd("create", "@R", *gen.fmt_args(gen.pick_formats(rng, 1, 2)), "-sf", "@R/" + rng.choice(gen.tree_files(state))))
        ops.append(scen.gen_advance(rng))
    muts = []
    n = rng.choice([0, 1, 1, 1, 2, 2, 3, 4])
    files = gen.tree_files(state)
    dirs = gen.tree_dirs(state)
    for _ in range(n):
        k = rng.random()
        if k < 0.3 and files:
            f = rng.choice(files)
            sub = rng.choice(["flip", "rewrite", "append", "truncate"])
            if sub == "flip":
                muts.append({"op": "flip", "path": f, "byte": rng.randrange(1 << 16), "bit": rng.randrange(8), "fault": "flip_bit",
                             "keep_mtime": rng.random() < 0.5})
            elif sub == "rewrite":
                muts.append({"op": "rewrite", "path": f, "seed": rng.getrandbits(30), "fault": "overwrite_same_size", "keep_mtime": rng.random() < 0.5})
            elif sub == "append":
                muts.append({"op": "append", "path": f, "c": gen.unique_content(rng, 3), "fault": "append"})
            else:
                muts.append({"op": "truncate", "path": f, "size": rng.randrange(1 << 16), "fault": "truncate"})
        elif k < 0.5 and files:
            f = rng.choice(files)
            muts.append({"op": "remove", "path": f, "fault": "remove_file"})
        elif k < 0.58 and dirs:
            d = rng.choice(dirs)
            muts.append({"op": "rmdir", "path": d, "fault": "remove_empty_dir"})
            if rng.random() < 0.3:
                # ... and a regular file appears under exactly the same name
                muts.append({"op": "write", "path": d, "c": gen.unique_content(rng), "fault": "file_replaces_directory"})
        elif k < 0.8:
            parent = rng.choice([""] + dirs + ["brandnew", "brandnew/deeper"])
            name = rng.choice(["added.bin", "new clip.mov", "ünï.new", "a&b.new"])
            rel = f"{parent}/{name}" if parent else name
            muts.append({"op": "write", "path": rel, "c": gen.unique_content(rng), "fault": "add_file"})
        elif k < 0.9 and (files or dirs):
            t = rng.choice(files + dirs)
            muts.append({"op": "touch", "path": t, "m": 1_300_000_000_000_000 + rng.randrange(10**9) * 1000, "fault": "touch_mtime"})
        elif k < 0.95:
            parent = rng.choice([""] + dirs)
            muts.append({"op": "mkdir", "path": (parent + "/" if parent else "") + "emptynew", "fault": "add_empty_dir"})
        elif pats:
            p = rng.choice(pats)
            muts.append({"op": "append", "path": IGNORABLE[p], "c": {"text": "zz"}, "fault": "edit_ignored_file"})
    if same_named and same_named in state and rng.random() < 0.6:
        muts.append({"op": "remove", "path": same_named, "fault": "remove_file"})
    judge = {"v": rng.random() < 0.3, "i": []}
    if rng.random() < 0.15:
        # patterns given at verification time only: recorded entries they match are out of the judgement altogether
        judge["i"] = rng.sample(sorted(IGNORABLE) + ["*.mov", "sub", "B"], rng.randint(1, 2))
    return {"world": env, "ops": ops, "mutations": muts, "judge": judge}


MISMATCH_VERIFY = re.compile(r"^ERROR: hash mismatch\s+for (.*) old (\w+): \S+, new \w+: \S+$")
MISMATCH_CREATE = re.compile(r"^ERROR: hash mismatch for\s+(.*)  (\w+) \(old\): \S+, \w+ \(new\): \S+$")
MISSING_HEAD = re.compile(r"^ERROR: (\d+) missing file\(s\):$")
NEW_FILE = re.compile(r"^found new file (.*)$")


def parse_reports(text):
    mism, missing, new = set(), set(), set()
    lines = text.split("\n")
    i = 0
    while i < len(lines):
        line = lines[i]
        m = MISMATCH_VERIFY.match(line) or MISMATCH_CREATE.match(line)
        if m:
            mism.add(m.group(1))
        m = NEW_FILE.match(line)
        if m:
            new.add(m.group(1))
        m = MISSING_HEAD.match(line)
        if m:
            n = int(m.group(1))
            for j in range(1, n + 1):
                if i + j < len(lines) and lines[i + j].startswith("  "):
                    missing.add(lines[i + j][2:])
            i += n
        i += 1
    return mism, missing, new


def execute(sc, ctx):
    w = core.World(sc["world"], ctx.subdir("main"))
    results = scen.run_ops(w, sc["ops"], ctx)
    ctx.absorb_world(w)
    if not scen.setup_ok(results, allowed=(0, 10) if sc.get("early_removal") else (0, 11) if sc.get("restored") else (0,)):
        ctx.probe("setup_failed_na")
        return
    hv = observe.HistoryView(w.root)
    if hv.error or not hv.generations:
        ctx.probe("setup_unreadable_na")
        return
    judge = sc.get("judge") or {"v": False, "i": []}
    pats = list(hv.latest_patterns() or observe.default_patterns()) + list(judge["i"])
    ig = observe.make_ignore(pats, w.root)
    sealed_files, sealed_dirs = observe.walk_nonignored(w.root, ig)
    sealed_bytes = {f: observe.read_bytes(f) for f in sealed_files}
    n_gens = len(hv.generations)
    nested_roots = [h for h in observe.find_histories(w.root) if h != w.root]
    fired_kinds = []
    for m in sc["mutations"]:
        if w.apply_env(m):
            fired_kinds.append(m.get("fault", m["op"]))
            ctx.note("mut", m)
    ctx.absorb_world(w)
    cur_files, cur_dirs = observe.walk_nonignored(w.root, ig)
    content = sorted(f for f in sealed_files if f in cur_files and observe.read_bytes(f) != sealed_bytes[f])
    removed_f = sorted(set(sealed_files) - set(cur_files))
    if sc.get("early_removal"):
        # files that some generation of some history recorded and that were already gone when the tree was last sealed
        ever = set()
        for hroot in observe.find_histories(w.root):
            hvx = observe.HistoryView(hroot)
            if not hvx.error:
                ever |= {os.path.normpath(os.path.join(hroot, p_)) for p_ in hvx.file_records()}
        removed_f = sorted(set(removed_f) | {p_ for p_ in ever if p_ not in cur_files and not ig(p_)})
        ctx.probe("recorded_file_gone_before_the_last_seal")
    removed_d = sorted(set(sealed_dirs) - set(cur_dirs) - set(cur_files))  # a directory replaced by a file counts as 'added'
    if set(sealed_dirs) & set(cur_files):
        ctx.probe("directory_replaced_by_file")
    added = sorted(set(cur_files) - set(sealed_files))
    rel = lambda p: os.path.relpath(p, w.root)
    classes = tuple(k for k, v in (("content", content), ("removed-file", removed_f), ("removed-dir", removed_d), ("added", added)) if v)
    affected = content + removed_f + removed_d + added
    depth = 0
    for a in affected:
        depth = max(depth, sum(1 for n in nested_roots if a.startswith(n + os.sep)))
    none_left = not any(f in cur_files for f in sealed_files)
    if classes or n_gens >= 2:
        ctx.nontrivial = True
    for name in ("verify", "diff", "create"):
        wc = core.clone_world(w, ctx.subdir())
        if name == "create":
            last = [o for o in sc["ops"] if scen.is_cmd(o) and "-sf" not in o["argv"]][-1]["argv"]
            argv = ["create", wc.root] + [a for a in last[2:] if a != "-n"]
        else:
            argv = [name, wc.root]
        for p_ in judge["i"]:
            argv += ["-i", p_]
        if judge["v"] and "-v" not in argv:
            argv.append("-v")
        r = wc.run_cmd(argv)
        ctx.evaluations += 1
        ctx.steps += 1
        ctx.note("judge", name, r.outcome, classes)
        ctx.state(name, classes, depth, min(n_gens, 3), len(pats) > 3, r.brief())
        desc = (f"{name} -> {r.brief()} after {fired_kinds}; content {list(map(rel, content))} removed "
                f"{list(map(rel, removed_f + removed_d))} added {list(map(rel, added))}")
        if r.outcome[0] != "exit":
            ctx.violate({"kind": "abort", "cmd": name, "cause": r.extra.get("abort_type", r.brief())},
                        desc + r.extra.get("abort_tb", "")[-500:])
            break
        code = r.outcome[1]
        allowed = None
        if not classes:
            allowed = {0}
        elif content and name in ("verify", "create"):
            allowed = {11}
        elif content and name == "diff":
            rest = [c for c in classes if c != "content"]
            if not rest:
                allowed = None  # diff is not judged on content
            elif added and not (removed_f or removed_d):
                allowed = {21}
            elif added:
                allowed = {10, 21}
            else:
                allowed = {10}
        elif added:
            if name == "verify":
                allowed = {21}
            elif name == "diff":
                allowed = {21} if not (removed_f or removed_d) else {10, 21}
            else:
                allowed = {0} if not (removed_f or removed_d) else {10}
        else:
            allowed = {10}
        if allowed is not None and code not in allowed:
            ctx.violate({"kind": "wrong-exit", "cmd": name, "cause": f"{code}-instead-of-{sorted(allowed)[:3]}",
                         "classes": "+".join(classes) or "none"}, desc + " | " + r.stderr[-300:])
            break
        # reported paths
        mism, missing, new = parse_reports(r.stderr + "\n" + r.stdout)
        # the log lines separate fields by runs of blanks, so names are compared modulo surrounding white space
        strip = lambda xs: {x.strip() for x in xs}
        mism, missing, new = strip(mism), strip(missing), strip(new)
        exp_mism = strip(map(rel, content)) if name in ("verify", "create") else set()
        exp_missing = strip(map(rel, removed_f + removed_d))
        exp_new = strip(map(rel, added)) if name in ("verify", "diff") else set()
        if mism != exp_mism:
            ctx.violate({"kind": "mismatch-report-differs", "cmd": name,
                         "cause": "not-reported" if exp_mism - mism else "false-report"},
                        desc + f" | reported mismatches {sorted(mism)}")
            break
        if missing != exp_missing:
            ctx.violate({"kind": "missing-report-differs", "cmd": name,
                         "cause": "not-reported" if exp_missing - missing else "false-report"},
                        desc + f" | reported missing {sorted(missing)}")
            break
        if name != "create" and new != exp_new:
            ctx.violate({"kind": "new-file-report-differs", "cmd": name,
                         "cause": "not-reported" if exp_new - new else "false-report"},
                        desc + f" | reported new {sorted(new)}")
            break
        core.shutil_rmtree(wc.sandbox)
    ctx.sample = {"history": [o["argv"] for o in sc["ops"] if scen.is_cmd(o)][:5], "mutations": sc["mutations"][:4]}


def shrink_candidates(sc):
    for muts in ddmin_list(sc["mutations"]):
        yield dict(sc, mutations=muts)
    j = sc.get("judge") or {}
    if j.get("v"):
        yield dict(sc, judge=dict(j, v=False))
    if j.get("i"):
        yield dict(sc, judge=dict(j, i=j["i"][1:]))
    cmds = [i for i, o in enumerate(sc["ops"]) if scen.is_cmd(o)]
    for ops in ddmin_list(sc["ops"]):
        if any(scen.is_cmd(o) and "-sf" not in o["argv"] and o["argv"][1] == "@R" for o in ops):
            yield dict(sc, ops=ops)
    protected = set()
    for o in sc["ops"] + sc["mutations"]:
        if scen.is_cmd(o):
            for a in o["argv"]:
                if isinstance(a, str) and a.startswith("@R/"):
                    protected.add(a[3:])
        else:
            for key in ("path", "src", "dst"):
                if key in o:
                    protected.add(o[key])
    for tree in gen.shrink_tree_candidates(sc["world"]["tree"], protected):
        yield dict(sc, world=dict(sc["world"], tree=tree))
    for key, val in (("tz", "UTC0"), ("enum_profile", "sorted"), ("read_profile", "full"), ("clock_profile", "calm")):
        if sc["world"].get(key) != val:
            yield dict(sc, world=dict(sc["world"], **{key: val}))
