"""C17 -- Renamed files keep their identity when rename detection is on."""

import os

from .. import core, explore, gen, observe, scen
from ..driver import ddmin_list
from .c03 import parse_reports

CONFIG = {
    "level": "exploration",
    "level_text": ("Seeded exploration of rename sets: a tree with pairwise distinct contents is sealed (1..2 generations), then "
                   "1..4 simultaneous file renames / moves (in place, into another existing directory keeping or changing the "
                   "base name, chains a->b while c->a's old directory) plus 0..2 unrelated new files in existing and in brand-"
                   "new directories are applied; `create -dr` runs with the recorded or another format, with or without -n, "
                   "under all enumeration orders and per-worker hash seeds (the matcher iterates over sets); afterwards "
                   "verify, diff and create, then a content edit of a renamed file and verify. A control copy runs plain "
                   "create / verify on the same renamed tree. Oracle from the rename map the scenario applied and an "
                   "independent reading of the manifests."),
    "level_note": ("Folder renames and moves across nested histories are outside the property's quantifier and are not "
                   "generated; one rename step per file between generations."),
    "technique": "deterministic simulation: seeded rename/move sets with previousPath/exit-code oracle and a no-dr control world",
    "quick": {"runs": 1000, "budget_s": 120},
    "thorough": {"runs": 5000, "budget_s": 540},
    "rule": ("one run = sealed tree + rename set + create -dr + follow-up commands + control; one evaluation = one judged "
             "command. Distinct = (#renames, kinds of moves present, #new files, new directory present, format same/"
             "different, -n, enum profile); non-trivial = at least one rename fired."),
}


def generate(rng, tier):
    env = gen.gen_env(rng)
    if rng.random() < 0.15:
        env["process_model"] = "session"  # all commands of the run in one long-lived simulated process
    tree = gen.gen_tree(rng, max_entries=10, max_depth=2, hostile=0.15, unique=True, min_files=2, empty_dirs=True)
    tree.setdefault("D1", {"t": "d"})
    empty = None
    if rng.random() < 0.3:
        empty = rng.choice(["empty.marker", "D1/empty.lock"])
        tree[empty] = {"t": "f", "c": {"gen": [0, 0]}}
    twins = rng.random() < 0.1
    if twins:
        # two files with the same path relative to their own history (root and nested D1), both renamed before one run
        tree["tw.bin"] = {"t": "f", "c": gen.unique_content(rng)}
        tree["D1/tw.bin"] = {"t": "f", "c": gen.unique_content(rng)}
    env["tree"] = tree
    f1 = gen.pick_formats(rng, 1, 2)
    setup = [scen.cmd("create", "@R", *gen.fmt_args(f1), *(["-n"] if rng.random() < 0.15 else []))]
    if twins and rng.random() < 0.5:
        setup.insert(0, scen.cmd("create", "@R/D1", *gen.fmt_args(f1)))  # the nested history is the older one
    late = []
    if rng.random() < 0.45:
        setup.append(scen.gen_advance(rng))
        if rng.random() < 0.6:
            # files that enter the history in a later generation, possibly first recorded in another format
            for i in range(rng.randint(1, 2)):
                name = rng.choice(["", "D1/"]) + "late_%d.bin" % i
                setup.append({"op": "write", "path": name, "c": gen.unique_content(rng), "fault": "add_file"})
                late.append(name)
        setup.append(scen.cmd("create", "@R", *gen.fmt_args(f1 if rng.random() < 0.4 else gen.pick_formats(rng, 1, 2))))
    if (rng.random() < 0.2 or twins) and any(f.startswith("D1/") for f in gen.tree_files(tree) + late):
        # D1 becomes a nested history AFTER the parent recorded its files; the parent is sealed once more
        setup += [scen.gen_advance(rng), scen.cmd("create", "@R/D1", *gen.fmt_args(f1)), scen.gen_advance(rng),
                  scen.cmd("create", "@R", *gen.fmt_args(f1))]
        env["_nested_d1"] = True
    setup.append(scen.gen_advance(rng))
    files = gen.tree_files(tree) + late
    dirs = [""] + gen.tree_dirs(tree)
    renames = []
    taken = set(tree)
    moved = set()
    taken |= set(late)
    nested_d1 = env.pop("_nested_d1", False)
    if twins:
        same_new_name = rng.random() < 0.5
        nn = rng.randrange(99)
        for src in ("tw.bin", "D1/tw.bin"):
            # (the new names may coincide as well: root 'x' and nested 'D1/x')
            dst = os.path.join(os.path.dirname(src), "twin_ren_%d" % (nn if same_new_name else rng.randrange(99)))
            if dst not in taken:
                taken.add(dst)
                moved.add(src)
                renames.append({"op": "rename", "src": src, "dst": dst, "fault": "rename_in-place", "kind": "in-place"})
    if nested_d1 and rng.random() < 0.35:
        # a file of the root history and a file of the nested history receive the same history-relative new name
        top = [f for f in files if "/" not in f and f not in moved]
        inner = [f for f in files if f.startswith("D1/") and f.count("/") == 1 and f not in moved]
        name = "same_%d.mov" % rng.randrange(99)
        if top and inner and name not in taken and "D1/" + name not in taken:
            for src, dst in ((rng.choice(top), name), (rng.choice(inner), "D1/" + name)):
                taken.add(dst)
                moved.add(src)
                renames.append({"op": "rename", "src": src, "dst": dst, "fault": "rename_in-place", "kind": "in-place"})
    if not nested_d1 and rng.random() < 0.12:
        # a file takes over the NAME that another recorded file gives up in the same step (in another folder):
        # day1/a.mov -> selects/b.mov while day2/b.mov -> day2/b_alt.mov
        pool = [f for f in files if f not in moved]
        rng.shuffle(pool)
        for src_a in pool:
            others = [src_b for src_b in pool if src_b != src_a and os.path.basename(src_b) != os.path.basename(src_a)]
            if not others:
                continue
            src_b = rng.choice(others)
            d1 = rng.choice([d for d in dirs if d != os.path.dirname(src_b)] or [None])
            if d1 is None:
                continue
            dst1 = os.path.normpath(os.path.join(d1, os.path.basename(src_b)))
            dst2 = os.path.normpath(os.path.join(os.path.dirname(src_b), "alt_%d_" % rng.randrange(99) + os.path.basename(src_b)))
            if dst1 in taken or dst2 in taken:
                continue
            taken |= {dst1, dst2}
            moved |= {src_a, src_b}
            renames.append({"op": "rename", "src": src_a, "dst": dst1, "fault": "rename_move-and-rename", "kind": "move-and-rename"})
            renames.append({"op": "rename", "src": src_b, "dst": dst2, "fault": "rename_in-place", "kind": "in-place"})
            break
    for _ in range(rng.randint(0 if renames else 1, 4)):
        cands = [f for f in files if f not in moved]
        if nested_d1:
            cands = [f for f in cands if f.startswith("D1/")] or cands
        if late and rng.random() < 0.5:
            cands = [f for f in late if f not in moved] or cands
        if empty and empty not in moved and rng.random() < 0.6:
            cands = [empty]
        if not cands:
            break
        src = rng.choice(cands)
        k = rng.random()
        if k < 0.4 or nested_d1:
            # (with a nested history in play every file stays inside its own history: in-place renames only)
            dst = os.path.join(os.path.dirname(src), "ren_%d%s" % (rng.randrange(99), rng.choice(["", ".mov", " x"])))
            kind = "in-place"
        elif k < 0.7:
            dst = os.path.join(rng.choice(dirs), os.path.basename(src))
            kind = "move-keep-name"
        else:
            dst = os.path.join(rng.choice(dirs), "mv_%d" % rng.randrange(99))
            kind = "move-and-rename"
        dst = os.path.normpath(dst)
        if dst in taken or dst == src:
            continue
        taken.add(dst)
        moved.add(src)
        renames.append({"op": "rename", "src": src, "dst": dst, "fault": "rename_" + kind, "kind": kind})
    news = []
    for _ in range(rng.choice([0, 0, 1, 2])):
        parent = rng.choice(dirs + ["fresh dir", "fresh dir/inner"])
        rel = os.path.normpath(os.path.join(parent, "unrelated_%d.bin" % rng.randrange(99)))
        if rel in taken:
            continue
        taken.add(rel)
        news.append({"op": "write", "path": rel, "c": gen.unique_content(rng), "fault": "add_unrelated_file"})
    newdirs = []
    if rng.random() < (0.6 if empty else 0.15):
        # brand-new empty folders (their content hash is the digest of nothing, like an empty file's)
        for name in rng.sample(["0_new_empty", "D1/aa empty", "zz_empty", "!scratch"], rng.randint(1, 2)):
            if name not in taken:
                taken.add(name)
                newdirs.append({"op": "mkdir", "path": name, "fault": "add_empty_dir"})
    f2 = f1 if rng.random() < 0.4 else gen.pick_formats(rng, 1, 2)
    dr = ["create", "@R", "-dr"] + gen.fmt_args(f2) + (["-n"] if rng.random() < 0.2 else [])
    # an optional second round: other files renamed in a later generation (each file still renamed only once)
    renames2 = []
    if rng.random() < 0.4:
        cands = [f for f in files if f not in moved and f not in taken - set(tree)]
        rng.shuffle(cands)
        for src in cands[: rng.randint(1, 2)]:
            # (every file stays inside its own history: with a nested history in play rename in place)
            dst = os.path.normpath(os.path.join(os.path.dirname(src) if nested_d1 else rng.choice(dirs), "r2_%d" % rng.randrange(99)))
            if dst in taken:
                continue
            taken.add(dst)
            moved.add(src)
            renames2.append({"op": "rename", "src": src, "dst": dst, "fault": "rename_second_round", "kind": "second-round"})
    return {"world": env, "ops": setup, "renames": renames, "news": news, "newdirs": newdirs, "dr": dr, "edit_seed": rng.getrandbits(30),
            "renames2": renames2, "forgot_dr_first": rng.random() < 0.2}


def execute(sc, ctx):
    w = core.World(sc["world"], ctx.subdir("main"))
    results = scen.run_ops(w, sc["ops"], ctx)
    ctx.absorb_world(w)
    if not scen.setup_ok(results):
        ctx.probe("setup_failed_na")
        return
    applied = []
    for r in sc["renames"]:
        if w.apply_env(r):
            applied.append(r)
    news = [n for n in sc["news"] if w.apply_env(n)]
    for nd in sc.get("newdirs", []):
        w.apply_env(nd)
    ctx.absorb_world(w)
    if not applied:
        ctx.probe("no_rename_fired_na")
        return
    ctx.nontrivial = True
    rmap = {r["src"]: r["dst"] for r in applied}
    new_dir = any(os.path.dirname(n["path"]) and not os.path.dirname(n["path"]) in sc["world"]["tree"] for n in news)
    f1 = [a for i, a in enumerate(sc["ops"][0]["argv"]) if i > 0 and sc["ops"][0]["argv"][i - 1] == "-h"]
    f2 = [a for i, a in enumerate(sc["dr"]) if i > 0 and sc["dr"][i - 1] == "-h"]
    kinds = tuple(sorted({r["kind"] for r in applied}))
    ctx.state(len(applied), kinds, len(news), new_dir, sorted(f1) == sorted(f2), "-n" in sc["dr"],
              sc["world"]["enum_profile"])
    if new_dir:
        ctx.probe("new_directory_in_same_run")
    if sorted(f1) != sorted(f2):
        ctx.probe("format_differs_from_recorded")
    desc0 = f"renames {rmap} new {[n['path'] for n in news]}"
    # control world: without -dr the same tree is missing + new
    wc = core.clone_world(w, ctx.subdir())
    r = wc.run_cmd(["create", wc.root] + gen.fmt_args(f1))
    ctx.evaluations += 1
    if r.outcome != ("exit", 10):
        ctx.violate({"kind": "control-without-dr", "cmd": "create", "cause": r.brief()},
                    f"plain create on the renamed tree -> {r.brief()}, expected exit 10; {desc0} {r.extra.get('abort_tb', '')[-300:]}")
        return
    _, missing, _ = parse_reports(r.stderr + "\n" + r.stdout)
    if missing != set(rmap):
        ctx.violate({"kind": "control-without-dr", "cmd": "create", "cause": "missing-set"},
                    f"plain create reports missing {sorted(missing)}, expected {sorted(rmap)}")
        return
    wc2 = core.clone_world(w, ctx.subdir())
    r = wc2.run_cmd(["verify", wc2.root])
    ctx.evaluations += 1
    _, _, new = parse_reports(r.stderr + "\n" + r.stdout)
    want_new = set(rmap.values()) | {n["path"] for n in news}
    if r.outcome != ("exit", 21) or new != want_new:
        ctx.violate({"kind": "control-without-dr", "cmd": "verify", "cause": r.brief()},
                    f"verify on the renamed tree -> {r.brief()} new {sorted(new)}, expected 21 / {sorted(want_new)}")
        return
    # the user may first have run create without -dr (exit 10, the new paths get recorded as new files) ...
    if sc.get("forgot_dr_first"):
        r = w.run_cmd(["create", w.root] + gen.fmt_args(f1))
        ctx.evaluations += 1
        w.advance(2_000_000)
        ctx.probe("plain_create_before_create_dr")
    # main world: create -dr
    pre_names = set(scen.all_ascmhl_files(w.base))
    r, _ = scen.run_op(w, scen.cmd(*sc["dr"]))
    ctx.evaluations += 1
    ctx.note("dr", sc["dr"], r.outcome)
    if r.outcome != ("exit", 0):
        ctx.violate({"kind": "create-dr-fails", "cause": r.extra.get("abort_type", r.brief()), "new_dir": new_dir,
                     "fmt_same": sorted(f1) == sorted(f2), "n": "-n" in sc["dr"]},
                    f"{sc['dr']} -> {r.brief()}; {desc0}; {r.stderr[-300:]} {r.extra.get('abort_tb', '')[-500:]}")
        return
    _, missing, _ = parse_reports(r.stderr + "\n" + r.stdout)
    if missing:
        ctx.violate({"kind": "renamed-file-reported-missing"}, f"{sc['dr']}: reports missing {sorted(missing)}; {desc0}")
        return
    newm = [k for k in scen.all_ascmhl_files(w.base) if k not in pre_names and k.endswith(".mhl")]
    if not newm:
        ctx.violate({"kind": "unexpected-manifests"}, f"{newm}")
        return
    # records of all manifests written by this run (root and nested histories), keyed by path relative to the root
    recs = {}
    claims = []
    for k in newm:
        mp = os.path.join(w.base, k)
        hroot = os.path.dirname(os.path.dirname(mp))
        m = observe.read_manifest(mp)
        for rec in m["files"]:
            rp = os.path.relpath(os.path.join(hroot, rec["path"]), w.root)
            prev = None if rec["previousPath"] is None else os.path.relpath(os.path.join(hroot, rec["previousPath"]), w.root)
            recs.setdefault(rp, []).append(prev)
            if prev is not None:
                claims.append((rp, prev))
    for old, new in rmap.items():
        got = recs.get(new, [])
        if len(got) != 1:
            ctx.violate({"kind": "renamed-file-record-count", "cause": str(len(got))}, f"{new!r}: {len(got)} records; {desc0}")
            return
        if got[0] != old:
            ctx.violate({"kind": "wrong-previous-path", "cause": "missing" if got[0] is None else "value",
                         "fmt_same": sorted(f1) == sorted(f2)},
                        f"{new!r}: previousPath {got[0]!r}, expected {old!r}; {desc0}; formats {f1}->{f2}")
            return
    for rp, prev in claims:
        if rmap.get(prev) != rp:
            ctx.violate({"kind": "spurious-previous-path"}, f"{rp!r} claims previous path {prev!r}; {desc0}")
            return
    # afterwards the tree is accepted
    for name in ("verify", "diff", "create"):
        argv = [name, w.root] + (gen.fmt_args(f2) if name == "create" else [])
        r = w.run_cmd(argv)
        ctx.evaluations += 1
        if r.outcome != ("exit", 0):
            ctx.violate({"kind": "tree-not-accepted-after-dr", "cmd": name, "cause": r.extra.get("abort_type", r.brief())},
                        f"{name} after create -dr -> {r.brief()}; {desc0}; {r.stderr[-300:]} {r.extra.get('abort_tb', '')[-300:]}")
            return
    # second round of renames in a later generation
    applied2 = [r2 for r2 in sc.get("renames2", []) if w.apply_env(r2)]
    if applied2:
        w.advance(1_000_000)
        rmap2 = {r2["src"]: r2["dst"] for r2 in applied2}
        r = w.run_cmd(["create", w.root, "-dr"] + gen.fmt_args(f2))
        ctx.evaluations += 1
        if r.outcome != ("exit", 0):
            ctx.violate({"kind": "create-dr-fails", "cause": r.extra.get("abort_type", r.brief()), "round": 2},
                        f"second create -dr -> {r.brief()}; round 1 {rmap}; round 2 {rmap2}; {r.stderr[-300:]}")
            return
        for name in ("verify", "diff", "create"):
            r = w.run_cmd([name, w.root] + (gen.fmt_args(f2) if name == "create" else []))
            ctx.evaluations += 1
            if r.outcome != ("exit", 0):
                ctx.violate({"kind": "tree-not-accepted-after-dr", "cmd": name, "cause": r.extra.get("abort_type", r.brief()), "round": 2},
                            f"{name} after the second create -dr -> {r.brief()}; round 1 {rmap}; round 2 {rmap2}; {r.stderr[-300:]}")
                return
        ctx.probe("rename_records_in_two_generations")
    # a renamed file whose content also changes is still caught
    victim = sorted(rmap.values())[sc["edit_seed"] % len(rmap)]
    if not w.apply_env({"op": "rewrite", "path": victim, "seed": sc["edit_seed"], "fault": "edit_renamed_file"}):
        w.apply_env({"op": "append", "path": victim, "c": {"text": "!"}, "fault": "edit_renamed_file"})
    r = w.run_cmd(["verify", w.root])
    ctx.evaluations += 1
    mism, _, _ = parse_reports(r.stderr + "\n" + r.stdout)
    if r.outcome != ("exit", 11) or mism != {victim}:
        ctx.violate({"kind": "edited-renamed-file-not-caught", "cause": r.brief()},
                    f"verify after editing renamed {victim!r} -> {r.brief()}, mismatches {sorted(mism)}")
        return
    ctx.absorb_world(w)
    ctx.sample = {"setup": [o["argv"] for o in sc["ops"] if scen.is_cmd(o)], "renames": rmap, "new": [n["path"] for n in news], "dr": sc["dr"]}


def shrink_candidates(sc):
    for rs in ddmin_list(sc["renames"], 1):
        yield dict(sc, renames=rs)
    for ns in ddmin_list(sc["news"]):
        yield dict(sc, news=ns)
    if sc.get("newdirs"):
        yield dict(sc, newdirs=sc["newdirs"][1:])
    protected = set()
    for r in sc["renames"]:
        protected |= {r["src"], os.path.dirname(r["dst"]), os.path.dirname(r["src"])}
    for n in sc["news"]:
        protected.add(os.path.dirname(n["path"]))
    for tree in gen.shrink_tree_candidates(sc["world"]["tree"], protected):
        yield dict(sc, world=dict(sc["world"], tree=tree))
    for ops in ddmin_list(sc["ops"][1:]):
        yield dict(sc, ops=sc["ops"][:1] + ops)
    if "-n" in sc["dr"]:
        yield dict(sc, dr=[a for a in sc["dr"] if a != "-n"])
    for key, val in (("tz", "UTC0"), ("enum_profile", "sorted"), ("read_profile", "full"), ("clock_profile", "calm")):
        if sc["world"].get(key) != val:
            yield dict(sc, world=dict(sc["world"], **{key: val}))
