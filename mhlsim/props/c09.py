"""C09 -- Directory-hash verification detects any change anywhere in the tree."""

import os

from .. import core, explore, gen, observe, scen
from ..driver import ddmin_list

CONFIG = {
    "level": "exploration",
    "level_text": ("Seeded exploration with single faults: trees (flat folders without sub-directory, deep trees, nested "
                   "histories sealed with other formats) are sealed one to four times on an unchanged tree with varying format "
                   "sets, some generations with -n; then zero or one mutation at a random depth incl. directly in the root "
                   "folder (content edit, in-place rename, added file, removed file, added directory, removed empty directory) "
                   "and `verify -dh` with or without -h F. Oracle: untouched -> exit 0; mutated (hence different from every "
                   "recorded generation) -> exit 12 with an ERROR line; never an abort."),
    "level_note": ("-h F is only passed for a format that every generation with directory hashes recorded; histories in which "
                   "no generation carries directory hashes are n/a; the tree is identical in all generations so 'differs from "
                   "some generations only' does not arise."),
    "technique": "deterministic simulation: seeded sealed histories + single tree faults at every depth; exit-code oracle for verify -dh",
    "quick": {"runs": 1440, "budget_s": 90},
    "thorough": {"runs": 7000, "budget_s": 540},
    "rule": ("one run = sealed world + at most one mutation + one verify -dh; one evaluation = that verify. Distinct = (mutation "
             "kind, depth of the mutated entry's parent below the root, inside-nested-history, #generations, #formats, has -n "
             "generation, nested formats differ, -h given); non-trivial = a mutation fired or the history has >= 2 generations."),
}


def generate(rng, tier):
    env = gen.gen_env(rng)
    flat = rng.random() < 0.25
    tree = gen.gen_tree(rng, max_entries=9, max_depth=0 if flat else 3, hostile=0.1, min_files=1)
    twin = None
    if rng.random() < 0.1:
        # an entry whose name has two canonically equivalent spellings; renaming it to the other one is a rename
        parent = rng.choice([""] + gen.tree_dirs(tree))
        nfc, nfd = rng.choice([("caf\u00e9.mov", "cafe\u0301.mov"), ("\u00fcber", "u\u0308ber"), ("\ud55c.txt", "\u1112\u1161\u11ab.txt")])
        a, b = (nfc, nfd) if rng.random() < 0.5 else (nfd, nfc)
        rel = (parent + "/" if parent else "") + a
        if "." in a:
            tree[rel] = {"t": "f", "c": gen.unique_content(rng)}
        else:
            tree[rel] = {"t": "d"}
            tree[rel + "/in.bin"] = {"t": "f", "c": gen.unique_content(rng)}
        twin = (rel, (parent + "/" if parent else "") + b)
    pat_args = []
    if rng.random() < 0.25:
        pat = rng.choice(["*.bak", "notes", "cache/", "tmp*"])
        victim = {"*.bak": "x.bak", "notes": "notes", "cache/": "cache/c1", "tmp*": "tmp_1"}[pat]
        parent = rng.choice([""] + gen.tree_dirs(tree))
        rel = (parent + "/" if parent else "") + victim
        if "/" in victim:
            tree.setdefault((parent + "/" if parent else "") + "cache", {"t": "d"})
        tree.setdefault(rel, {"t": "f", "c": gen.unique_content(rng)})
        pat_args = ["-i", pat] if rng.random() < 0.8 else ["-ii", "@M/patterns.txt"]
        env["_pat"] = pat
    lookalike = None
    if not pat_args and not flat and rng.random() < 0.12:
        # a pattern anchored at the root (it has an inner separator) and an unrelated entry deeper in the tree whose last
        # two path components read the same: only the anchored one is ignored, a change of the deep one must be noticed
        tree.setdefault("cache", {"t": "d"})
        tree["cache/index.db"] = {"t": "f", "c": gen.unique_content(rng)}
        for d in ("projects", "projects/shots", "projects/shots/cache"):
            tree.setdefault(d, {"t": "d"})
        tree["projects/shots/cache/index.db"] = {"t": "f", "c": gen.unique_content(rng)}
        pat_args = ["-i", rng.choice(["cache/index.db", "/cache/index.db", "cache/*.db"])]
        lookalike = "projects/shots/cache/index.db"
    env["tree"] = tree
    ops = []
    if pat_args and pat_args[0] == "-ii":
        ops.append({"op": "write", "path": "@M/patterns.txt", "c": {"text": env["_pat"] + "\n"}})
    env.pop("_pat", None)
    nested = []
    if not flat and rng.random() < 0.4 and not lookalike:
        # (not together with the anchored look-alike pattern: an anchored pattern means something else relative to a
        # nested root, so the nested history's own generation would have recorded another tree than the outer run sees -
        # soak seed 1616)
        nested = [n for n in scen.subroots_of(tree, rng, 2) if not (pat_args and "cache" in n.split("/"))]
        for sub in nested:
            # the same effective patterns in every generation of every history (the statement's "identical to what
            # every generation recorded")
            ops.append(scen.cmd("create", scen.root_arg(sub), *gen.fmt_args(gen.pick_formats(rng, 1, 2)), *pat_args))
    n = rng.randint(1, 4)
    common = None
    any_dh = False
    for g in range(n):
        fmts = gen.pick_formats(rng, 1, 3)
        args = gen.fmt_args(fmts)
        if rng.random() < 0.2:
            args.append("-n")
        else:
            any_dh = True
            common = set(fmts) if common is None else common & set(fmts)
        ops.append(scen.cmd("create", "@R", *args, *pat_args))
        ops.append(scen.gen_advance(rng))
    ignorable = ("x.bak", "notes", "c1", "tmp_1")
    files = [f for f in gen.tree_files(tree) if not (pat_args and os.path.basename(f) in ignorable)]
    dirs = [d for d in gen.tree_dirs(tree) if not (pat_args and os.path.basename(d) == "cache")]
    mut = None
    k = rng.random()
    if twin and rng.random() < 0.7:
        mut = {"op": "rename", "src": twin[0], "dst": twin[1], "fault": "rename_to_other_unicode_normal_form"}
    elif k < 0.85:
        kind = rng.choice(["content", "rename", "add_file", "remove_file", "add_dir", "rename_dir", "rmdir"])
        if kind == "content" and files:
            f = rng.choice(files)
            mut = {"op": "rewrite", "path": f, "seed": rng.getrandbits(30), "fault": "content_edit"}
            if tree[f]["c"].get("gen", [0, 1])[1] == 0:
                mut = {"op": "append", "path": f, "c": {"text": "x"}, "fault": "content_edit"}
        elif kind == "rename" and files:
            f = rng.choice(files)
            mut = {"op": "rename", "src": f, "dst": os.path.join(os.path.dirname(f), "ren_%d" % rng.randrange(99)), "fault": "rename_in_place"}
        elif kind == "add_file":
            parent = rng.choice([""] + dirs)
            mut = {"op": "write", "path": (parent + "/" if parent else "") + "added_%d.bin" % rng.randrange(99),
                   "c": gen.unique_content(rng), "fault": "add_file"}
        elif kind == "remove_file" and files:
            mut = {"op": "remove", "path": rng.choice(files), "fault": "remove_file"}
        elif kind == "add_dir":
            parent = rng.choice([""] + dirs)
            mut = {"op": "mkdir", "path": (parent + "/" if parent else "") + "newdir_%d" % rng.randrange(99), "fault": "add_dir"}
        elif kind == "rename_dir" and dirs:
            d = rng.choice([x for x in dirs if x not in nested] or dirs)
            mut = {"op": "rename", "src": d, "dst": os.path.join(os.path.dirname(d), "rend_%d" % rng.randrange(99)), "fault": "rename_dir_in_place"}
        elif kind == "rmdir" and dirs:
            mut = {"op": "rmdir", "path": rng.choice(dirs), "fault": "remove_empty_dir"}
    if lookalike and rng.random() < 0.7:
        mut = rng.choice([{"op": "rewrite", "path": lookalike, "seed": rng.getrandbits(30), "fault": "content_edit"},
                          {"op": "remove", "path": lookalike, "fault": "remove_file"}])
    argv = ["verify", "@R", "-dh"]
    if common and rng.random() < 0.4:
        argv += ["-h", rng.choice(sorted(common))]
    if rng.random() < 0.2:
        argv.append("-v")
    return {"world": env, "ops": ops, "mutation": mut, "verify": argv}


def execute(sc, ctx):
    w = core.World(sc["world"], ctx.subdir("main"))
    results = scen.run_ops(w, sc["ops"], ctx)
    ctx.absorb_world(w)
    if not scen.setup_ok(results, allowed=(0,)):
        ctx.probe("setup_failed_na")
        return
    hv = observe.HistoryView(w.root)
    if hv.error or not hv.generations:
        ctx.probe("setup_unreadable_na")
        return
    gens_with_dh = [g for g in hv.generations if g[2]["roothash"] is not None]
    if not gens_with_dh:
        ctx.probe("no_generation_with_directory_hashes_na")
        return
    hflag = sc["verify"][sc["verify"].index("-h") + 1] if "-h" in sc["verify"] else None
    if hflag and not all(hflag in g[2]["roothash"]["content"] for g in gens_with_dh):
        ctx.probe("format_not_recorded_everywhere_na")
        return
    nested_roots = [h for h in observe.find_histories(w.root) if h != w.root]
    root_fmts = set()
    for g in gens_with_dh:
        root_fmts |= set(g[2]["roothash"]["content"])
    nested_fmts = set()
    for nr in nested_roots:
        nv = observe.HistoryView(nr)
        for g in nv.generations:
            if g[2]["roothash"]:
                nested_fmts |= set(g[2]["roothash"]["content"])
    mut = sc.get("mutation")
    fired = False
    parent_depth = None
    in_nested = False
    if mut:
        tgt = mut.get("path") or mut.get("src")
        ap = w.abspath(tgt)
        # a change of an entry the history's patterns ignore is invisible by design (C12): not a subject here
        ig = observe.make_ignore(hv.latest_patterns() or observe.default_patterns(), w.root)
        for cand in [ap] + ([w.abspath(mut["dst"])] if mut.get("dst") else []):
            q = cand
            while q != w.root and q.startswith(w.root + os.sep):
                if ig(q):
                    ctx.probe("mutation_of_ignored_entry_na")
                    return
                q = os.path.dirname(q)
        fired = w.apply_env(mut)
        ctx.absorb_world(w)
        if fired:
            parent = os.path.dirname(ap)
            parent_depth = 0 if parent == w.root else os.path.relpath(parent, w.root).count(os.sep) + 1
            in_nested = any(ap.startswith(n + os.sep) for n in nested_roots)
    r, _ = scen.run_op(w, scen.cmd(*sc["verify"]))
    ctx.evaluations += 1
    ctx.steps += 1
    ctx.note("verify", sc["verify"], r.outcome, mut if fired else None)
    has_n = len(gens_with_dh) < len(hv.generations)
    has_pat = len(hv.latest_patterns() or []) > 3
    if has_pat:
        ctx.probe("history_with_user_patterns")
    ctx.state(mut.get("fault") if fired else "none", parent_depth, in_nested, len(hv.generations), len(root_fmts), has_n,
              bool(nested_fmts - root_fmts), hflag is not None, has_pat)
    if fired or len(hv.generations) >= 2:
        ctx.nontrivial = True
    if has_n:
        ctx.probe("history_with_n_generation")
    if nested_fmts - root_fmts:
        ctx.probe("nested_history_with_foreign_format")
    if fired and parent_depth == 0:
        ctx.probe("mutation_directly_in_root_folder")
    desc = f"{sc['verify']} -> {r.brief()} after {mut if fired else 'no mutation'}; generations {len(hv.generations)}"
    if r.outcome[0] != "exit":
        ctx.violate({"kind": "abort", "cause": r.extra.get("abort_type", r.brief()), "where": r.extra.get("abort_where", ""),
                     "n_generation": has_n, "foreign_nested_format": bool(nested_fmts - root_fmts), "h": hflag is not None},
                    desc + " " + r.extra.get("abort_tb", "")[-600:])
        return
    code = r.outcome[1]
    if not fired:
        if code != 0:
            ctx.violate({"kind": "false-alarm-on-unchanged-tree", "cause": str(code)}, desc + " | " + r.stderr[-400:])
        return
    if code != 12:
        ctx.violate({"kind": "undetected-change", "cause": f"exit-{code}",
                     "parent": "root" if parent_depth == 0 else "below-root", "mutation": mut.get("fault")},
                    desc + " | " + r.stderr[-300:])
        return
    if "ERROR" not in r.stderr:
        ctx.violate({"kind": "no-error-line"}, desc)
        return
    ctx.sample = {"history": [o["argv"] for o in sc["ops"] if scen.is_cmd(o)][:5], "mutation": mut, "verify": sc["verify"]}


def shrink_candidates(sc):
    for ops in ddmin_list(sc["ops"], 1):
        yield dict(sc, ops=ops)
    protected = set()
    m = sc.get("mutation") or {}
    for key in ("path", "src", "dst"):
        if key in m:
            protected.add(m[key])
            protected.add(os.path.dirname(m[key]))
    for o in sc["ops"]:
        if scen.is_cmd(o):
            for a in o["argv"]:
                if isinstance(a, str) and a.startswith("@R/"):
                    protected.add(a[3:])
    for tree in gen.shrink_tree_candidates(sc["world"]["tree"], protected):
        yield dict(sc, world=dict(sc["world"], tree=tree))
    if "-v" in sc["verify"]:
        yield dict(sc, verify=[a for a in sc["verify"] if a != "-v"])
    for key, val in (("tz", "UTC0"), ("enum_profile", "sorted"), ("read_profile", "full"), ("clock_profile", "calm")):
        if sc["world"].get(key) != val:
            yield dict(sc, world=dict(sc["world"], **{key: val}))
