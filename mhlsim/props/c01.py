"""C01 -- File digests are the standard algorithms over the exact file bytes."""

import os
import re

from .. import core, explore, gen, observe, scen
from ..driver import ddmin_list

CONFIG = {
    "level": "exploration",
    "level_text": ("Seeded exploration over file lengths (0, 1, 2..64, 4 KiB +/- 1, 1 MiB - 1, 1 MiB, 1 MiB + 1, 2 MiB, "
                   "2 MiB + 1, 3 MiB + 17), contents (random, zeros, repeated blocks), format subsets (1..6, repeated -h; xxh32 "
                   "at library level) and entry points (create, create -sf, verify, the hash command, verify -dh -co, and the "
                   "library calls hash_file, hash_data, multiple_format_hash_file, multiple_format_hash_data, streaming hashers with "
                   "intermediate digests, concurrent calls from several simulated threads with seeded line-level interleaving, "
                   "bytes_for_hash_string run as a client inside the simulated process), with the simulator deciding the size "
                   "of every read() (full, halves, 1..17-byte reads, ragged) so that both chunk loops iterate from once to "
                   "thousands of times and chunk boundaries fall at arbitrary offsets. Every digest string observed is "
                   "compared with hashlib/xxhash applied directly to the bytes on the disk image, in canonical text form."),
    "level_note": ("The clause 'for the c4 text codec all 512-bit values' is a pure function of its input and is not decided "
                   "here: the left-padding branch is reached only as often as SHA-512 values of generated files start with "
                   "zero base-58 digits (a probe counts it; ~1 in 58 per leading digit), plus a handful of decoder round "
                   "trips on small values through bytes_for_hash_string."),
    "technique": "deterministic simulation: seeded file lengths/contents x simulator-chosen read chunking x entry points against independent digests",
    "quick": {"runs": 320, "budget_s": 90},
    "thorough": {"runs": 3000, "budget_s": 540},
    "rule": ("one run = world with 2..6 files + create, verify, hash, library calls; one evaluation = one digest string "
             "compared. Distinct = (format, size class, entry point, read profile, #formats in the same pass); non-trivial = "
             "digest of a file that needed >= 2 read() calls or lies at / around the 1 MiB chunk size."),
}

MIB = 1 << 20
SMALL = [0, 1, 2, 3, 7, 16, 17, 31, 63, 64, 65, 127, 128, 129, 200, 240, 241, 255, 256, 1023, 4095, 4096, 4097, 65536]
LARGE = [MIB - 1, MIB, MIB + 1, 2 * MIB, 2 * MIB + 1, 3 * MIB + 17]
HASH_LINE = re.compile(r"^(\w+) \((.*)\) = (\S+)$")


def size_class(n):
    if n == 0:
        return "0"
    if n < 64:
        return "<64"
    if n <= 256:
        return "<=256"
    if n < MIB - 1:
        return "<1MiB"
    if n in (MIB - 1, MIB, MIB + 1):
        return "~1MiB"
    return ">1MiB"


def generate(rng, tier):
    env = gen.gen_env(rng)
    env["read_profile"] = rng.choice(["full", "halves", "tiny", "ragged", "ragged"])
    tree = {}
    n_large = rng.choice([0, 0, 1, 1, 2]) if tier == "quick" else rng.choice([0, 1, 1, 2])
    names = rng.sample(gen.SIMPLE_FILES + ["ünï.bin", "with space.dat"], rng.randint(2, 5))
    for i, n in enumerate(names):
        size = rng.choice(LARGE) if i < n_large else (rng.choice(SMALL) if rng.random() < 0.7 else rng.randrange(0, 3000))
        k = rng.random()
        if size == 0:
            c = {"gen": [0, 0]}
        elif k < 0.7:
            c = {"gen": [rng.getrandbits(48), size]}
        elif k < 0.85:
            c = {"zero": size}
        else:
            c = {"rep": ["abc", size // 3, size % 3]}
        rel = n if rng.random() < 0.7 else "sub/" + n
        if rel.startswith("sub/"):
            tree["sub"] = {"t": "d"}
        tree[rel] = {"t": "f", "c": c}
    if rng.random() < 0.12:
        # a symbolic link to a regular file of the tree: its content is the content of the target
        targets = [k for k, v in tree.items() if v["t"] == "f"]
        t = rng.choice(targets)
        link = os.path.join(os.path.dirname(t), "link_to_" + os.path.basename(t))
        tree[link] = {"t": "l", "to": os.path.basename(t)}
    if rng.random() < 0.15:
        # names that look like shell / template syntax: a left-over of a failed name template next to the real file
        # (the variable is defined in the environment of the simulated process), a name starting with a tilde
        a, b = rng.choice([("plate_$SHOT.exr", "plate_sh010.exr"), ("${SHOT}_v2.mov", "sh010_v2.mov"), ("~notes.txt", "notes.txt")])
        tree[a] = {"t": "f", "c": gen.unique_content(rng, rng.choice([9, 300]))}
        tree[b] = {"t": "f", "c": gen.unique_content(rng, rng.choice([9, 300]))}
    env["tree"] = tree
    r = rng.random()
    if r < 0.15:
        fmts = list(observe.FORMATS)
    else:
        fmts = gen.pick_formats(rng, 1, 4)
    args = gen.fmt_args(fmts + ([fmts[0]] if rng.random() < 0.15 else []))
    files = gen.tree_files(tree)
    ops = [scen.cmd("create", "@R", *args), scen.cmd("verify", "@R")]
    f = rng.choice(files)
    ops.append(scen.cmd("hash", "@R/" + f, "-h", rng.choice(observe.FORMATS)))
    ops.append(scen.cmd("verify", "@R", "-dh", "-co", "-h", rng.choice(observe.FORMATS)))
    if rng.random() < 0.5:
        ops.append(scen.cmd("create", "@R", *gen.fmt_args(gen.pick_formats(rng, 1, 3)), "-sf", "@R/" + rng.choice(files)))
    if rng.random() < 0.4:
        # a longer history: files join the tree between generations and every generation picks its own formats, so that
        # one run meets files with different recorded format sets
        extra = ["0_early.bin", "a_new.mov", "sub/b_new.dat", "zz_late.bin", "m_mid.txt"]
        rng.shuffle(extra)
        for g in range(rng.randint(2, 4)):
            if extra and rng.random() < 0.7:
                rel = extra.pop()
                if rel.startswith("sub/") and "sub" not in tree:
                    ops.append({"op": "mkdir", "path": "sub"})
                ops.append({"op": "write", "path": rel, "c": gen.unique_content(rng, rng.choice([9, 40, 5000]))})
            a = gen.fmt_args(gen.pick_formats(rng, 1, 2))
            if rng.random() < 0.25:
                a += ["-sf", "@R"]
            ops.append(scen.cmd("create", "@R", *a))
    lib = []
    for _ in range(rng.randint(2, 4)):
        f = rng.choice(files)
        k = rng.randrange(4)
        if k == 0:
            lib.append(["hash_file", f, rng.choice(observe.ALL_FORMATS)])
        elif k == 1:
            lib.append(["hash_data", f, rng.choice(observe.ALL_FORMATS)])
        elif k == 2:
            lib.append(["multi_file", f, sorted(rng.sample(observe.ALL_FORMATS, rng.randint(1, 7)))])
        else:
            lib.append(["multi_data", f, sorted(rng.sample(observe.ALL_FORMATS, rng.randint(1, 7)))])
    for _ in range(rng.randint(0, 2)):
        # streaming use of one hasher object: data fed in pieces, the digest of what has been fed so far is asked for
        # before the first piece, between pieces and at the end
        lib.append(["stream", rng.choice(files), [rng.choice(observe.ALL_FORMATS), rng.getrandbits(30)]])
    threads = None
    if len(files) >= 2 and rng.random() < 0.25:
        # the library called from several threads of one process at the same time, each on another file
        picks = rng.sample(files, min(len(files), rng.randint(2, 3)))
        threads = {"calls": [["hash_file", f, rng.choice(observe.ALL_FORMATS)] if rng.random() < 0.5 else
                             ["multi_file", f, sorted(rng.sample(observe.FORMATS, rng.randint(1, 3)))] for f in picks],
                   "sched_seed": rng.getrandbits(32), "preempt": rng.choice([100, 300, 600])}
    return {"world": env, "ops": ops, "lib": lib, "codec_seed": rng.getrandbits(40), "threads": threads}


def _lib_calls(cs, calls, codec_values):
    from ascmhl import hasher

    out = []
    for kind, path, arg in calls:
        if kind == "hash_file":
            out.append(hasher.hash_file(path, arg))
        elif kind == "hash_data":
            with core.R_open(path, "rb") as f:
                out.append(hasher.hash_data(f.read(), arg))
        elif kind == "multi_file":
            out.append(hasher.multiple_format_hash_file(path, arg))
        elif kind == "multi_data":
            with core.R_open(path, "rb") as f:
                out.append(hasher.multiple_format_hash_data(f.read(), arg))
        elif kind == "stream":
            fmt, seed = arg
            with core.R_open(path, "rb") as f:
                data = f.read()
            h = hasher.new_hasher_for_hash_type(fmt)
            got, pos, i = [], 0, 0
            if seed % 2:
                got.append((0, h.string_digest()))
            while pos < len(data):
                n = 1 + core.h64(seed, "piece", i) % max(1, min(len(data), 70_000))
                h.update(data[pos: pos + n])
                pos = min(len(data), pos + n)
                i += 1
                if core.h64(seed, "ask", i) % 3 or pos == len(data):
                    got.append((pos, h.string_digest()))
            if not got:
                got.append((0, h.string_digest()))
            out.append(got)
        elif kind == "bytes_for":
            out.append(hasher.bytes_for_hash_string(path, arg))
    codec = [hasher.bytes_for_hash_string(s, "c4") for s in codec_values]
    return out, codec


def execute(sc, ctx):
    os.environ["SHOT"] = "sh010"  # (inherited by every simulated process of the run)
    w = core.World(sc["world"], ctx.subdir("main"))
    profile = sc["world"]["read_profile"]
    cache = {}

    def ref(path, fmt):
        key = (path, fmt)
        if key not in cache:
            cache[key] = observe.digest_file(path, fmt)
        return cache[key]

    def compare(entry, path, fmt, got, nfmts, reads_over_one):
        ctx.evaluations += 1
        size = os.path.getsize(path)
        want = ref(path, fmt)
        sc_ = size_class(size)
        if reads_over_one or sc_ in ("~1MiB", ">1MiB"):
            ctx.nontrivial = True
        ctx.state(fmt, sc_, entry, profile, min(nfmts, 4))
        if size and size % MIB == 0:
            ctx.probe("file_size_multiple_of_chunk")
        if fmt == "c4" and want.startswith("c41"):
            ctx.probe("c4_digest_with_pad_character")
        if got != want:
            ctx.violate({"kind": "wrong-digest", "fmt": fmt, "entry": entry,
                         "cause": "form" if not observe.canonical_form_ok(got, fmt) else "value"},
                        f"{entry}: {os.path.relpath(path, w.root)!r} ({size} bytes, read profile {profile}, {nfmts} formats in "
                        f"the pass) {fmt} = {got!r}, independent digest {want!r}")
            return False
        if not observe.canonical_form_ok(got, fmt):
            ctx.violate({"kind": "wrong-digest", "fmt": fmt, "entry": entry, "cause": "form"}, f"{got!r}")
            return False
        return True

    for op in sc["ops"]:
        pre = set(scen.all_ascmhl_files(w.base))
        res, _ = scen.run_op(w, op)
        ctx.steps += 1
        if not scen.is_cmd(op):
            ctx.note("env", op)
            continue
        argv = op["argv"]
        ctx.note("cmd", argv, res.outcome)
        multi = res.extra.get("short_reads", 0) > 0
        if multi:
            ctx.fault("short_read", res.extra["short_reads"])
            ctx.probe("read_loop_iterated_more_than_once")
        if res.outcome[0] != "exit":
            if argv[0] == "verify" and "-dh" in argv:
                continue
            ctx.violate({"kind": "abort", "entry": argv[0], "cause": res.extra.get("abort_type", res.brief())},
                        f"{argv} -> {res.brief()} {res.extra.get('abort_tb', '')[-400:]}")
            return
        if argv[0] == "create":
            if res.outcome[1] != 0:
                ctx.violate({"kind": "create-fails-on-untouched-tree", "cause": res.brief()}, f"{argv}: {res.stderr[-300:]}")
                return
            for rel in sorted(set(scen.all_ascmhl_files(w.base)) - pre):
                if not rel.endswith(".mhl"):
                    continue
                m = observe.read_manifest(os.path.join(w.base, rel))
                hroot = os.path.dirname(os.path.dirname(os.path.join(w.base, rel)))
                for r in m["files"]:
                    fp = os.path.join(hroot, r["path"])
                    for e in r["entries"]:
                        if not compare("create-sf" if "-sf" in argv else "create", fp, e["fmt"], e["digest"], len(r["entries"]), multi):
                            return
        elif argv[0] == "verify" and "-dh" not in argv:
            ctx.evaluations += 1
            if res.outcome[1] != 0:
                ctx.violate({"kind": "verify-fails-on-untouched-tree", "entry": "verify", "cause": res.brief()},
                            f"{argv} -> {res.brief()} (read profile {profile}): {res.stderr[-400:]}")
                return
        elif argv[0] == "hash":
            found = False
            for line in res.stdout.split("\n"):
                mm = HASH_LINE.match(line)
                if mm:
                    found = True
                    if not compare("hash", w.abs_of(mm.group(2), op.get("cwd")), mm.group(1), mm.group(3), 1, multi):
                        return
            if not found:
                ctx.violate({"kind": "hash-prints-nothing", "entry": "hash"}, f"{argv}: {res.stdout!r}")
                return
    # library client calls inside a simulated process
    calls = [[k, w.abspath(f), a] for k, f, a in sc["lib"]]
    # bytes_for_hash_string on digests of the files
    files = sorted(p for p in (w.abspath(f) for f in gen.tree_files(sc["world"]["tree"])) if os.path.isfile(p))
    for i, fmt in enumerate(observe.ALL_FORMATS):
        fp = files[(sc["codec_seed"] + i) % len(files)]
        calls.append(["bytes_for", ref(fp, fmt), fmt])
    codec_vals = []
    raws = []
    for i in range(4):
        r = core.h64(sc["codec_seed"], "codec", i)
        nbytes = [0, 1, 8, 33][i]
        raw = (r.to_bytes(8, "big") * 8)[: nbytes].rjust(64, b"\0")
        raws.append(raw)
        codec_vals.append(observe.c4_encode(raw))
    r = w.run_child(("pyfunc", _lib_calls, (calls, codec_vals)))
    multi = r.extra.get("short_reads", 0) > 0
    if multi:
        ctx.fault("short_read", r.extra["short_reads"])
    if r.outcome[0] != "exit":
        ctx.violate({"kind": "abort", "entry": "library", "cause": r.extra.get("abort_type", r.brief())},
                    f"library calls -> {r.brief()} {r.extra.get('abort_tb', '')[-500:]}")
        return
    outs, codec = r.value
    for (kind, path, arg), got in zip(calls, outs):
        if kind in ("hash_file", "hash_data"):
            if not compare("lib." + kind, path, arg, got, 1, multi and kind == "hash_file"):
                return
        elif kind in ("multi_file", "multi_data"):
            if sorted(got) != sorted(arg):
                ctx.violate({"kind": "wrong-format-set", "entry": "lib." + kind}, f"{sorted(got)} vs {arg}")
                return
            for fmt in arg:
                if not compare("lib." + kind, path, fmt, got[fmt], len(arg), multi and kind == "multi_file"):
                    return
        elif kind == "stream":
            fmt = arg[0]
            data = observe.read_bytes(path)
            for pos, dig in got:
                ctx.evaluations += 1
                ctx.state(fmt, "stream", pos == len(data), len(got) > 1)
                want = observe.digest_bytes(data[:pos], fmt)
                if dig != want:
                    ctx.violate({"kind": "wrong-digest", "fmt": fmt, "entry": "lib.streaming", "cause": "value"},
                                f"streaming {fmt} hasher after {pos} of {len(data)} bytes ({len(got)} digests asked): {dig!r}, "
                                f"independent digest of those bytes {want!r}")
                    return
            if len(got) > 1:
                ctx.probe("streaming_intermediate_digest")
        elif kind == "bytes_for":
            ctx.evaluations += 1
            if got != observe.raw_of(path, arg):
                ctx.violate({"kind": "wrong-raw-bytes", "fmt": arg, "entry": "lib.bytes_for_hash_string"}, f"{path} -> {got!r}")
                return
    for raw, got in zip(raws, codec):
        ctx.evaluations += 1
        if got != raw:
            ctx.violate({"kind": "wrong-raw-bytes", "fmt": "c4", "entry": "lib.bytes_for_hash_string", "cause": "leading-zeros"},
                        f"c4 decode of {observe.c4_encode(raw)} -> {got!r}")
            return
    th = sc.get("threads")
    if th:
        from .. import simthread

        # (bounded work: with 1..17-byte reads only small files take part, so the number of scheduling decisions stays
        # in the ten-thousands; a real-time timeout of the simulator itself is not a verdict about the code)
        limit = 4096 if profile == "tiny" else 1 << 22
        tcalls = [[k, w.abspath(f), a] for k, f, a in th["calls"] if os.path.isfile(w.abspath(f)) and os.path.getsize(w.abspath(f)) <= limit]
        if len(tcalls) >= 2:
            r = w.run_child(("pyfunc", simthread.run_lib_threads_job, (tcalls, th["sched_seed"], th["preempt"])), timeout=60)
            if r.outcome[0] == "hang":
                raise core.HarnessError("threaded library job produced no result within 60 s of real time")
            if r.outcome[0] != "exit" or not isinstance(r.value, dict) or r.value["hang"]:
                ctx.violate({"kind": "abort", "entry": "library-threads", "cause": r.extra.get("abort_type", r.brief())},
                            f"threaded library calls -> {r.brief()} {r.extra.get('abort_tb', '')[-500:]}")
                return
            ctx.fault("thread_switches", r.value["switches"])
            if r.value["switches"] >= 2:
                ctx.probe("library_calls_interleaved_between_threads")
            for (kind, path, arg), got in zip(tcalls, r.value["results"]):
                fmts = [arg] if kind == "hash_file" else list(arg)
                if isinstance(got, str) and got.startswith("exception"):
                    ctx.violate({"kind": "abort", "entry": "library-threads", "cause": got[:60]}, f"{kind} {arg}: {got}")
                    return
                for fmt in fmts:
                    val = got if kind == "hash_file" else (got or {}).get(fmt)
                    if not compare("lib.threads." + kind, path, fmt, val, len(fmts), True):
                        return
    ctx.absorb_world(w)
    if any(v["t"] == "l" for v in sc["world"]["tree"].values()):
        ctx.probe("symlinked_file_hashed")
    ctx.sample = {"sizes": {k: len(core.content_bytes(v.get("c"))) for k, v in sc["world"]["tree"].items() if v["t"] == "f"},
                  "read_profile": profile, "ops": [o["argv"] for o in sc["ops"] if scen.is_cmd(o)][:4], "lib": sc["lib"][:3]}


def shrink_candidates(sc):
    for ops in ddmin_list(sc["ops"], 1):
        yield dict(sc, ops=ops)
    for lib in ddmin_list(sc["lib"]):
        yield dict(sc, lib=lib)
    if sc.get("threads"):
        yield dict(sc, threads=None)
    protected = set()
    for o in sc["ops"]:
        for a in o.get("argv", []):
            if isinstance(a, str) and a.startswith("@R/"):
                protected.add(a[3:])
    for k, f, a in sc["lib"]:
        protected.add(f)
    for k, f, a in (sc.get("threads") or {}).get("calls", []):
        protected.add(f)
    for tree in gen.shrink_tree_candidates(sc["world"]["tree"], protected):
        yield dict(sc, world=dict(sc["world"], tree=tree))
    for key, val in (("tz", "UTC0"), ("enum_profile", "sorted"), ("clock_profile", "calm")):
        if sc["world"].get(key) != val:
            yield dict(sc, world=dict(sc["world"], **{key: val}))
