"""C07 -- Directory hashes follow the compositional definition."""

import os
import re

from .. import core, explore, gen, model, observe, scen
from ..driver import ddmin_list

CONFIG = {
    "level": "exploration",
    "level_text": ("Seeded exploration of random trees (empty directories, directories with more than ten and, rarely, with 65..518 "
                   "children, nested "
                   "histories, ignored entries) sealed with 1..6 formats under every directory-enumeration profile (sorted, "
                   "reversed, shuffled per call) and short-read profile. Every <directoryhash>/<roothash> value written by "
                   "create and every value printed by `verify -dh -co` is compared with an independent recursive "
                   "implementation of the definition evaluated on the disk image; a metamorphic step (in-place rename of a "
                   "file or folder, or content edit at random depth) then checks that all ancestors' content hashes stay / "
                   "change and structure hashes change as the definition demands."),
    "level_note": ("The arithmetic of the definition itself is a pure function and is only covered on the values these "
                   "histories produce; what the simulation adds is enumeration order, chunking, ignore and nesting."),
    "technique": "deterministic simulation: seeded trees x enumeration-order/short-read schedules against an independent directory-hash definition + metamorphic edits",
    "quick": {"runs": 720, "budget_s": 90},
    "thorough": {"runs": 5000, "budget_s": 540},
    "rule": ("one run = random tree + create, verify -dh -co, one metamorphic edit, create, verify -dh -co; one evaluation = "
             "one directory value set (content+structure of one directory in one format) compared with the reference. "
             "Distinct = (format, #children class, depth, empty, nested-root, enum profile, edit kind); non-trivial = "
             "directory with at least two children or an ancestor of the metamorphic edit."),
}

DIR_LINE = re.compile(r"^  calculated directory hash for (.*)  (\w+): (\S+) \(content\), (\S+) \(structure\)$")
ROOT_LINE = re.compile(r"^  calculated root hash  (\w+): (\S+) \(content\), (\S+) \(structure\)$")


def generate(rng, tier):
    env = gen.gen_env(rng)
    env["enum_profile"] = rng.choice(["reverse", "shuffle", "shuffle", "shuffle-stable", "dirs-last-reverse", "sorted"])
    tree = gen.gen_tree(rng, max_entries=12, max_depth=3, hostile=0.15, sizes=[0, 1, 5, 64, 1000])
    if rng.random() < 0.25:
        big = rng.choice([""] + gen.tree_dirs(tree))
        for i in range(rng.randint(11, 16)):
            rel = (big + "/" if big else "") + f"many{i:02d}.dat"
            tree[rel] = {"t": "f", "c": gen.unique_content(rng, 4)}
    wide_fmt = None
    if rng.random() < 0.04:
        # a folder with very many children (an image sequence): more digests than fit into any fixed-size block
        wide_fmt, count = rng.choice([("c4", 65), ("c4", 130), ("sha1", 205), ("md5", 257), ("xxh128", 258), ("xxh64", 513)])
        count += rng.randrange(0, 6)
        wide = rng.choice([""] + gen.tree_dirs(tree))
        for i in range(count):
            tree[(wide + "/" if wide else "") + "frame_%05d.dpx" % i] = {"t": "f", "c": {"gen": [rng.getrandbits(40), 9]}}
    env["tree"] = tree
    ops = []
    nested = scen.subroots_of(tree, rng, 2) if rng.random() < 0.35 else []
    for sub in nested:
        ops.append(scen.cmd("create", scen.root_arg(sub), *gen.fmt_args(gen.pick_formats(rng, 1, 2))))
    fmts = list(observe.FORMATS) if rng.random() < 0.1 else gen.pick_formats(rng, 1, 3)
    if wide_fmt and wide_fmt not in fmts:
        fmts = sorted(fmts[:1] + [wide_fmt])
    args = gen.fmt_args(fmts + ([rng.choice(fmts)] if rng.random() < 0.15 else []))  # sometimes a format is named twice
    if rng.random() < (0.5 if nested else 0.25):
        args += ["-i", rng.choice(["*.xml", "notes", "z9", "sub/", "d1", "*.jpg"])]
        dirs0 = gen.tree_dirs(tree)
        if dirs0 and rng.random() < 0.3:
            # a later negated pattern re-includes what an earlier one excluded (the last matching pattern decides)
            d0 = rng.choice(dirs0)
            args += ["-i", rng.choice(["*.bin", "*.mov", "*.dat", "*.*", "many*"]), "-i",
                     rng.choice(["!" + os.path.basename(d0), "!" + os.path.basename(d0) + "/", "!/" + d0, "!" + d0 + "/*.bin"])]
    ops.append(scen.cmd("create", "@R", *args))
    co = ["verify", "@R", "-dh", "-co"]
    if rng.random() < 0.6:
        co += ["-h", rng.choice(fmts)]
    ops.append(scen.cmd(*co))
    files = gen.tree_files(tree)
    inner = [f for f in files if any(f.startswith(n + "/") for n in nested)]
    if inner and rng.random() < 0.5:
        # a partial generation that records files of a nested history only: the outer history gets a generation that
        # merely references the nested one; what is ignored stays the same for every later directory hash
        ops.append(scen.cmd("create", "@R", *gen.fmt_args(fmts[:1]), "-sf", "@R/" + rng.choice(inner)))
        if rng.random() < 0.5:
            ops.append(scen.cmd(*co))
    # metamorphic edit
    dirs = [d for d in gen.tree_dirs(tree)]
    k = rng.random()
    edit = None
    if k < 0.4 and files:
        f = rng.choice(files)
        edit = {"op": "rename", "src": f, "dst": os.path.join(os.path.dirname(f), "renamed_" + str(rng.randrange(100))),
                "fault": "rename_in_place", "tag": "rename"}
    elif k < 0.6 and dirs:
        d = rng.choice(dirs)
        edit = {"op": "rename", "src": d, "dst": os.path.join(os.path.dirname(d), "rendir_" + str(rng.randrange(100))),
                "fault": "rename_dir_in_place", "tag": "rename"}
    elif files:
        f = rng.choice(files)
        edit = {"op": "write", "path": f, "c": gen.unique_content(rng, 7), "fault": "content_edit", "tag": "content"}
        if rng.random() < 0.3:
            # an edit that no stat() can see: same inode, same size, modification time put back (cp -p onto the file)
            edit = {"op": "rewrite", "path": f, "seed": rng.getrandbits(30), "keep_mtime": True, "fault": "content_edit_stat_invisible",
                    "tag": "content"}
    if edit:
        ops.append(edit)
        fmts2 = fmts
        if rng.random() < 0.4:
            # re-seal with formats that are (partly) new for the history: directory hashes in the new formats
            extra = [f for f in observe.FORMATS if f not in fmts]
            if extra:
                fmts2 = sorted(set(rng.sample(extra, rng.randint(1, min(2, len(extra)))) + (fmts[:1] if rng.random() < 0.5 else [])))
        ops.append(scen.cmd("create", "@R", *gen.fmt_args(fmts2)))
        co2 = ["verify", "@R", "-dh", "-co"] + (["-h", rng.choice(fmts2)] if rng.random() < 0.6 else [])
        ops.append(scen.cmd(*co2))
    if rng.random() < 0.2:
        env["process_model"] = "session"  # one long-lived process runs all commands (library use)
    return {"world": env, "ops": ops}


def _check_values(ctx, w, where, dir_abs, fmt, got_c, got_s, is_ignored, memo_by_fmt, enum_profile, extra=""):
    memo = memo_by_fmt.get(fmt)
    if memo is None:
        memo = {}
        observe.dir_hashes(w.root, fmt, is_ignored, memo)
        memo_by_fmt[fmt] = memo
    if dir_abs not in memo:
        return True
    want_c, want_s = memo[dir_abs]
    ctx.evaluations += 1
    kids = [n for n in core.R_listdir(dir_abs) if not is_ignored(os.path.join(dir_abs, n))]
    depth = os.path.relpath(dir_abs, w.root).count(os.sep) + (0 if dir_abs == w.root else 1)
    if len(kids) >= 2:
        ctx.nontrivial = True
    ctx.state(fmt, min(len(kids), 12), depth, not kids, where, enum_profile)
    if not kids:
        ctx.probe("empty_directory_hashed")
    if len(kids) > 10:
        ctx.probe("directory_with_more_than_10_children")
    if got_c != want_c or got_s != want_s:
        ctx.violate({"kind": "directory-hash-differs-from-definition", "cause": "content" if got_c != want_c else "structure",
                     "where": where},
                    f"{where} {os.path.relpath(dir_abs, w.root)!r} {fmt}: content {got_c} (definition {want_c}), structure "
                    f"{got_s} (definition {want_s}); {len(kids)} children; enum {enum_profile} {extra}")
        return False
    return True


def execute(sc, ctx):
    w = core.World(sc["world"], ctx.subdir("main"))
    enum_profile = sc["world"].get("enum_profile")
    recorded = []  # per root create: {dir_abs_at_that_time: {fmt: (c, s)}}
    edit = None
    for op in sc["ops"]:
        if not scen.is_cmd(op):
            fired = w.apply_env(op)
            ctx.note("env", op, fired)
            if fired and op.get("tag"):
                edit = op
            continue
        pre_asc = scen.all_ascmhl_files(w.sandbox)
        res, _ = scen.run_op(w, op)
        ctx.steps += 1
        ctx.note("cmd", op["argv"], res.outcome)
        argv = op["argv"]
        if res.outcome[0] != "exit":
            if argv[0] == "verify":
                ctx.probe("verify_dh_co_aborted_after_printing(C09)")  # aborts belong to C09; printed values are still judged
            else:
                ctx.probe("create_aborted_na")
                return
        hv = observe.HistoryView(w.root)
        if argv[0] == "create":
            if res.outcome[1] not in (0, 10, 11):
                ctx.probe("create_failed_na")
                return
            st = explore.Step()
            st.world, st.op, st.res = w, op, res
            st.pre_asc, st.post_asc = pre_asc, scen.all_ascmhl_files(w.sandbox)
            A = model.analyze_create(st)
            if A is None or A.error:
                ctx.probe("analysis_na")
                return
            memo_by_fmt = {}
            this = {}
            for hr, gens in A.new.items():
                m = gens[0][2]
                rh = m["roothash"]
                if rh is None and not A.nodh and A.cmd_root == w.root and A.mode == "folder":
                    ctx.violate({"kind": "roothash-missing"}, f"{argv}: {os.path.relpath(hr, w.root)}")
                    return
                for fmt in (rh["content"] if rh else {}):
                    if not _check_values(ctx, w, "roothash", hr, fmt, rh["content"][fmt], rh["structure"].get(fmt),
                                         A.is_ignored, memo_by_fmt, enum_profile):
                        return
                    this.setdefault(hr, {})[fmt] = (rh["content"][fmt], rh["structure"].get(fmt))
                for r in m["dirs"]:
                    ap = os.path.normpath(os.path.join(hr, r["path"]))
                    if sorted(r["content"]) != sorted(A.formats) and A.cmd_root == w.root and not A.nodh and A.mode == "folder":
                        ctx.violate({"kind": "directory-hash-formats-differ"}, f"{argv}: {r['path']!r}: {sorted(r['content'])}")
                        return
                    for fmt in r["content"]:
                        if not _check_values(ctx, w, "directoryhash", ap, fmt, r["content"][fmt], r["structure"].get(fmt),
                                             A.is_ignored, memo_by_fmt, enum_profile):
                            return
                        this.setdefault(ap, {})[fmt] = (r["content"][fmt], r["structure"].get(fmt))
            if A.cmd_root == w.root and A.mode == "folder":
                recorded.append(this)
        elif argv[0] == "verify":
            pats = hv.accumulated_patterns() if not hv.error and hv.generations else None
            ig = observe.make_ignore(pats or observe.default_patterns(), w.root)
            memo_by_fmt = {}
            n = 0
            for line in res.stdout.split("\n"):
                m = DIR_LINE.match(line)
                if m:
                    ap = os.path.normpath(os.path.join(w.root, m.group(1)))
                    fmt, c, s = m.group(2), m.group(3), m.group(4)
                else:
                    m = ROOT_LINE.match(line)
                    if not m:
                        continue
                    ap, fmt, c, s = w.root, m.group(1), m.group(2), m.group(3)
                n += 1
                if not _check_values(ctx, w, "verify-dh-co", ap, fmt, c, s, ig, memo_by_fmt, enum_profile):
                    return
            if n == 0 and res.outcome[0] == "exit":
                ctx.violate({"kind": "verify-dh-co-prints-nothing"}, f"{argv}: {res.stdout[-300:]}")
                return
    # metamorphic relation between the two root generations
    hv = observe.HistoryView(w.root)
    pats = (hv.accumulated_patterns() if not hv.error and hv.generations else None) or observe.default_patterns()
    ig_final = observe.make_ignore(pats, w.root)
    if edit and len(recorded) >= 2:
        before, after = recorded[-2], recorded[-1]
        target = w.abspath(edit["src"] if edit["op"] == "rename" else edit["path"])
        if edit["op"] == "rename" and any(p_ not in observe.default_patterns() for p_ in pats):
            edit = None  # a rename can change which entries the user patterns match: not a pure rename any more
    if edit and len(recorded) >= 2:
        probe_path = w.abspath(edit["dst"]) if edit["op"] == "rename" else target
        q = probe_path
        while q != w.root and q.startswith(w.root):
            if ig_final(q) or ig_final(os.path.join(os.path.dirname(q), os.path.basename(target))):
                edit = None
                break
            q = os.path.dirname(q)
    if edit and len(recorded) >= 2:
        anc = os.path.dirname(target)
        while True:
            if anc in before and anc in after:
                for fmt in before[anc]:
                    if fmt not in after[anc]:
                        continue
                    (c0, s0), (c1, s1) = before[anc][fmt], after[anc][fmt]
                    ctx.evaluations += 1
                    ctx.nontrivial = True
                    ctx.state("metamorphic", edit["tag"], fmt, os.path.relpath(anc, w.root).count(os.sep))
                    if edit["tag"] == "rename":
                        if c0 != c1:
                            ctx.violate({"kind": "content-hash-changed-by-rename"}, f"{os.path.relpath(anc, w.root)} {fmt}: {c0} -> {c1} after {edit}")
                            return
                        if s0 == s1:
                            ctx.violate({"kind": "structure-hash-unchanged-by-rename"}, f"{os.path.relpath(anc, w.root)} {fmt}: {s0} after {edit}")
                            return
                    else:
                        if c0 == c1:
                            ctx.violate({"kind": "content-hash-unchanged-by-content-edit"}, f"{os.path.relpath(anc, w.root)} {fmt} after {edit}")
                            return
            if anc == w.root or not anc.startswith(w.root):
                break
            anc = os.path.dirname(anc)
        ctx.probe("metamorphic_" + edit["tag"])
    ctx.absorb_world(w)
    ctx.sample = [o["argv"] if scen.is_cmd(o) else o for o in sc["ops"]][:8]


shrink_candidates = explore.shrink_candidates
