"""C15 -- An interrupted create never damages what was already recorded (crash-point enumeration)."""

import os

from .. import core, gen, observe, scen
from ..driver import ddmin_list

CONFIG = {
    "level": "fault_enumeration",
    "level_text": ("Crash-point enumeration inside seeded scenarios: the real create code runs as a forked process whose every "
                   "durable effect (mkdir, creat, each raw write of the user-space buffer, close, replace) is numbered; the "
                   "process is really killed (os._exit) before / in the middle of / after effect k, then the post-crash disk "
                   "image is judged by independent readers and by running info, verify and create again. Thorough enumerates "
                   "every effect x mode of each sampled scenario; scenarios themselves are sampled."),
    "level_note": ("Process death (SIGKILL) is modelled, not power loss; kills between commands of one scenario are not "
                   "combined, except that one kill in three is followed by a second interrupted attempt of the same create; writes that bypass open()/os.* (e.g. os.write on a raw fd obtained elsewhere) would be atomic "
                   "in the model. Known finding: the first-generation window (ascmhl folder exists, chain not yet)."),
    "technique": "deterministic simulation: seeded crash-point injection (kill at numbered fs effects) + post-crash oracles",
    "quick": {"runs": 240, "budget_s": 90},
    "thorough": {"runs": 1600, "budget_s": 540},
    "rule": ("scenario = random world (tz, write-buffer size 1..65536, enumeration/read profile) + setup history of 0..3 "
             "generations (flat or nested) + one target create; the target's numbered effect log (mkdir/creat/write/close/"
             "replace...) is learnt on a clone, then a kill is injected at effect k with mode before/partial(j)/after "
             "(quick: 10 sampled per scenario, thorough: every effect x 3 modes). One evaluation = one kill followed by "
             "info, verify and the repeated create. Distinct = (kind of effect killed, mode, file class manifest/chain/"
             "dir, history depth, #prior generations); non-trivial = the kill landed on an effect inside an ascmhl folder "
             "of a scenario whose setup succeeded."),
}


def generate(rng, tier):
    env = gen.gen_env(rng)
    env["wbuf"] = rng.choice([1, 7, 64, 512, 8192, 65536]) if tier == "thorough" else rng.choice([7, 64, 512, 8192, 65536])
    tree = gen.gen_tree(rng, max_entries=7, max_depth=2, hostile=0.15)
    env["tree"] = tree
    n_gens = rng.choice([0, 1, 1, 2, 3])
    setup, info = scen.gen_history_ops(rng, tree, n_gens=n_gens, p_sf=0.1, p_n=0.1, p_edit=0.2,
                                       edit_kinds=("add", "alter", "touch"), formats_hi=2)
    if n_gens and rng.random() < 0.12:
        # the history files were write-protected after sealing (chmod a-w on the files; folders stay writable, so the
        # next create still works: replacing a file needs write access to the folder only)
        setup = setup + [{"op": "chmod", "path": "@R", "tree": True, "mode": rng.choice([0o444, 0o440, 0o400]), "fault": "history_files_write_protected"}]
    fmts = gen.pick_formats(rng, 1, 2)
    args = gen.fmt_args(fmts)
    files = gen.tree_files(info["tree_state"])
    if files and rng.random() < 0.2:
        args += ["-sf", "@R/" + rng.choice(files)]
    elif rng.random() < 0.15:
        args.append("-n")
    target = scen.cmd("create", "@R", *args)
    follow = None
    if files and rng.random() < 0.3:
        # what runs next is not the same command again but a smaller one (a single file): its manifest is shorter than
        # whatever the interrupted run left behind
        follow = scen.cmd("create", "@R", "-h", fmts[0], "-sf", "@R/" + rng.choice(files))
    return {"world": env, "ops": setup, "target": target, "followup": follow,
            "kills": "all" if tier == "thorough" else "sample", "kill_seed": rng.getrandbits(32)}


def _file_class(rel):
    b = os.path.basename(rel)
    if b == "ascmhl_chain.xml":
        return "chain"
    if b.endswith(".mhl"):
        return "manifest"
    if b.endswith(".mhl.tmp") or b == "ascmhl_hashlist.tmp":
        return "manifest-tmp"
    if b.startswith("ascmhl_chain.xml."):
        return "chain-tmp"
    if b == "ascmhl":
        return "ascmhl-dir"
    return "other"


def execute(sc, ctx):
    w = core.World(sc["world"], ctx.subdir("main"))
    results = scen.run_ops(w, sc["ops"], ctx)
    ctx.absorb_world(w)
    if not scen.setup_ok(results, allowed=(0, 10, 11)):
        ctx.probe("setup_failed_na")
        return
    pre_files = scen.all_ascmhl_files(w.base)
    pre_hist = {}
    for hr in observe.find_histories(w.root):
        hv = observe.HistoryView(hr)
        pre_hist[os.path.relpath(hr, w.base)] = hv
        if hv.error:
            ctx.probe("setup_history_unreadable_na")
            return
    # baseline expectations from the state before / after an uninterrupted run
    wb = core.clone_world(w, ctx.subdir())
    base_info = wb.run_cmd(["info", wb.root]).outcome
    base_verify = wb.run_cmd(["verify", wb.root]).outcome
    wf = core.clone_world(w, ctx.subdir())
    full, _ = scen.run_op(wf, sc["target"])
    if full.outcome[0] != "exit" or full.outcome[1] not in (0, 10, 11):
        ctx.probe("target_failed_na")
        return
    full_files = scen.all_ascmhl_files(wf.base)
    full_info = wf.run_cmd(["info", wf.root]).outcome
    full_verify = wf.run_cmd(["verify", wf.root]).outcome
    effects = full.effects
    E = len(effects)
    if E == 0:
        ctx.probe("no_effects_na")
        return
    # choose kills
    kills = []
    if sc["kills"] == "all":
        ks = list(range(E))
        if E > 150:
            # very small write buffers give thousands of effects: keep every non-write effect, the first and last
            # writes of every file, and an evenly spread sample of the rest
            keep = {k for k in ks if effects[k][1] != "write"}
            keep |= {k for k in ks if k > 0 and effects[k - 1][1] != "write"} | {k for k in ks if k + 1 < E and effects[k + 1][1] != "write"}
            rest = [k for k in ks if k not in keep]
            step = max(1, len(rest) // 120)
            keep |= set(rest[::step])
            ks = sorted(keep)
            ctx.probe("thorough_kill_points_sampled")
        for k in ks:
            kills.append({"at": k, "mode": "before"})
            if effects[k][1] == "write" and effects[k][3] > 1:
                kills.append({"at": k, "mode": "partial", "bytes": max(1, effects[k][3] // 2)})
                kills.append({"at": k, "mode": "partial", "bytes": 1})
            kills.append({"at": k, "mode": "after"})
    elif sc["kills"] == "sample":
        n = min(10, 3 * E)
        for i in range(n):
            r = core.h64(sc["kill_seed"], i)
            k = r % E
            mode = ["before", "partial", "after"][(r >> 20) % 3]
            kl = {"at": k, "mode": mode}
            if mode == "partial":
                kl["bytes"] = 1 + (r >> 24) % max(1, effects[k][3] - 1) if effects[k][3] > 1 else 1
            if kl not in kills:
                kills.append(kl)
    else:
        kills = list(sc["kills"])
    n_prior = max([len(h.generations) for h in pre_hist.values()] + [0])
    depth = max([hr.count(os.sep) for hr in pre_hist] + [0])
    import time as _time

    for kl in kills:
        if kl["at"] >= E:
            continue
        if ctx.deadline is not None and _time.time() > ctx.deadline:
            ctx.probe("run_cut_short_by_budget")
            break
        ctx.evaluations += 1
        eff = effects[kl["at"]]
        fclass = _file_class(eff[2])
        wk = core.clone_world(w, ctx.subdir())
        res, _ = scen.run_op(wk, sc["target"], kill=kl)
        if res.outcome[0] != "killed":
            ctx.probe("kill_not_reached")
            continue
        ctx.fault(f"kill_{kl['mode']}_{eff[1]}_{fclass}")
        ctx.nontrivial = True
        ctx.state(eff[1], kl["mode"], fclass, depth, n_prior, sc["world"]["wbuf"] > 512)
        ctx.note("kill", kl, res.effects[-1][1:])
        second = None
        if kl.get("then") or (sc["kills"] != "all" and core.h64(sc["kill_seed"], "double", kl["at"], kl["mode"]) % 3 == 0) or (
                sc["kills"] == "all" and core.h64(sc["kill_seed"], "double", kl["at"], kl["mode"]) % 4 == 0):
            # the same create is started again and interrupted again, before anything else touches the history
            second = kl.get("then")
            if second is None:
                r2 = core.h64(sc["kill_seed"], "second", kl["at"], kl["mode"])
                second = {"at": r2 % E, "mode": ["before", "after", "after"][(r2 >> 20) % 3]}
            wk.advance(core.h64(sc["kill_seed"], "gap", kl["at"]) % 3 * 1_000_000)
            res2, _ = scen.run_op(wk, sc["target"], kill=second)
            if res2.outcome[0] == "killed":
                ctx.fault("second_kill_in_a_row")
                ctx.probe("two_interrupted_creates_in_a_row")
                ctx.note("kill2", second, res2.effects[-1][1:])
                kl = dict(kl, then=second)
            else:
                second = "not-reached"
                if res2.outcome != full.outcome:
                    ctx.violate({"kind": "next-command-fails", "cmd": "create", "cause": _fail_cause(res2, _new_folder_without_chain(wk, pre_hist)),
                                 "effect_kind": eff[1], "mode": kl["mode"], "file": fclass},
                                f"after kill {kl}: repeated create -> {res2.brief()} (expected {full.outcome}); {res2.stderr[-300:]}",
                                pin={"kills": [kl]})
                    core.shutil_rmtree(wk.sandbox)
                    continue
        if second != "not-reached":
            _check_after_kill(sc, ctx, w, wk, kl, eff, pre_files, pre_hist, full_files, effects,
                              (base_info, full_info), (base_verify, full_verify), full.outcome, double=second is not None)
        ctx.absorb_world(wk)
        # probes
        if fclass in ("manifest", "manifest-tmp") and eff[1] == "write":
            ctx.probe("kill_inside_manifest_write")
        if fclass in ("chain", "chain-tmp") and eff[1] in ("write", "creat", "close"):
            ctx.probe("kill_inside_chain_rewrite")
        if fclass == "ascmhl-dir" and kl["mode"] == "after":
            ctx.probe("kill_right_after_mkdir_ascmhl")
        if eff[1] == "replace":
            ctx.probe("kill_at_rename")
        later = [e for e in effects[kl["at"] + 1:]]
        if fclass in ("chain", "chain-tmp") and eff[1] in ("close", "replace") and later:
            ctx.probe("kill_between_child_commit_and_parent")
        core.shutil_rmtree(wk.sandbox)
    ctx.sample = {"setup": [o["argv"] if scen.is_cmd(o) else o for o in sc["ops"]][:6], "target": sc["target"]["argv"],
                  "effects": E, "kills": kills[:3], "wbuf": sc["world"]["wbuf"]}
    core.shutil_rmtree(wb.sandbox)
    core.shutil_rmtree(wf.sandbox)


def _check_after_kill(sc, ctx, w, wk, kl, eff, pre_files, pre_hist, full_files, effects, infos, verifies, full_outcome,
                      double=False):
    def V(sig, msg):
        ctx.violate(sig, msg, pin={"kills": [kl]})

    where = {"effect_kind": eff[1], "mode": kl["mode"], "file": _file_class(eff[2])}
    post_files = scen.all_ascmhl_files(wk.base)
    # 1. every previously committed manifest is byte-identical
    for rel, data in pre_files.items():
        if rel.endswith(".mhl"):
            if post_files.get(rel) != data:
                V({"kind": "old-manifest-changed", **where}, f"{rel} changed or vanished after kill {kl}")
                return
    # 2. every chain file that existed still parses and lists every earlier generation in order
    for hrel, hv in pre_hist.items():
        cp = os.path.join(wk.base, hrel, "ascmhl", "ascmhl_chain.xml")
        if not os.path.exists(os.path.join(w.base, hrel, "ascmhl", "ascmhl_chain.xml")):
            continue
        try:
            chain = observe.read_chain(cp)
        except Exception as e:
            V({"kind": "chain-damaged", "cause": "unparsable", **where},
                        f"chain of {hrel} unreadable after kill {kl}: {type(e).__name__}: {e}")
            return
        if chain[: len(hv.chain)] != hv.chain:
            V({"kind": "chain-damaged", "cause": "entries-lost", **where},
                        f"chain of {hrel} lost entries after kill {kl}: {chain} vs {hv.chain}")
            return
    # 4. the interrupted generation is absent or completely present, per history
    for hr in observe.find_histories(wk.root) if os.path.isdir(wk.root) else []:
        hrel = os.path.relpath(hr, wk.base)
        adir = os.path.join(hr, "ascmhl")
        visible = observe.loader_visible_manifests(adir)
        for name in visible:
            rel = os.path.join(hrel, "ascmhl", name)
            if rel in pre_files:
                continue
            if double:
                # (the names of the second attempt carry a later time than the uninterrupted reference run)
                err = observe.xsd_validate(os.path.join(wk.base, rel), "manifest")
                if err:
                    V({"kind": "partial-generation-visible", **where},
                      f"{rel} is visible to the loader but is not a complete manifest (kills {kl}): {err}")
                    return
                continue
            if rel not in full_files or post_files.get(rel) != full_files[rel]:
                V({"kind": "partial-generation-visible", **where},
                            f"{rel} is visible to the loader but is not the complete manifest (kill {kl})")
                return
        cp = os.path.join(adir, "ascmhl_chain.xml")
        if os.path.exists(cp):
            try:
                chain = observe.read_chain(cp)
            except Exception as e:
                V({"kind": "chain-damaged", "cause": "unparsable-new", **where},
                            f"chain of {hrel} unreadable after kill {kl}: {e}")
                return
            for ent in chain:
                rel = os.path.join(hrel, "ascmhl", ent["path"] or "")
                data = post_files.get(rel)
                if data is None or observe.digest_bytes(data, "c4") != ent["c4"]:
                    V({"kind": "chain-entry-mismatch", **where},
                                f"chain of {hrel} lists {ent} which does not match the file on disk (kill {kl})")
                    return
    # 3. the next commands load the history normally
    empty_asc = _new_folder_without_chain(wk, pre_hist)
    for name, allowed in (("info", infos), ("verify", verifies)):
        r = wk.run_cmd([name, wk.root])
        if r.outcome not in allowed:
            V({"kind": "next-command-fails", "cmd": name,
                         "cause": _fail_cause(r, empty_asc), **where},
                        f"after kill {kl}: {name} -> {r.brief()} (allowed {allowed}); {r.stderr[-300:]} {r.extra.get('abort_tb','')[-400:]}")
            return
    if sc.get("followup"):
        r, _ = scen.run_op(wk, sc["followup"])
        if r.outcome[0] != "exit" or r.outcome[1] not in (0, 11):
            V({"kind": "next-command-fails", "cmd": "create-sf", "cause": _fail_cause(r, empty_asc), **where},
              f"after kill {kl}: {sc['followup']['argv']} -> {r.brief()}; {r.stderr[-300:]} {r.extra.get('abort_tb','')[-400:]}")
            return
        ctx.probe("smaller_create_after_kill")
    else:
        r, _ = scen.run_op(wk, sc["target"])
        if r.outcome != full_outcome:
            V({"kind": "next-command-fails", "cmd": "create", "cause": _fail_cause(r, empty_asc), **where},
              f"after kill {kl}: repeated create -> {r.brief()} (expected {full_outcome}); {r.stderr[-300:]} {r.extra.get('abort_tb','')[-400:]}")
            return
    # 5. bounded recovery: after the repeated create everything loads, numbering has no gap
    r = wk.run_cmd(["info", wk.root])
    if r.outcome != ("exit", 0):
        V({"kind": "no-recovery", "cmd": "info", **where}, f"after kill {kl} + create: info -> {r.brief()}")
        return
    for hr in observe.find_histories(wk.root):
        hv = observe.HistoryView(hr)
        if hv.error:
            V({"kind": "no-recovery", "cause": "unreadable", **where}, f"{hr}: {hv.error}")
            return
        nums = hv.numbers()
        if nums != list(range(1, len(nums) + 1)):
            V({"kind": "no-recovery", "cause": "numbering", **where},
                        f"{hr}: generations {nums} after kill {kl} + create")
            return


def _new_folder_without_chain(wk, pre_hist):
    """an ascmhl folder that did not exist before the interrupted run and has no chain file yet"""
    for d, subs, files in os.walk(wk.root):
        if os.path.basename(d) == "ascmhl" and "ascmhl_chain.xml" not in files:
            if os.path.relpath(os.path.dirname(d), wk.base) not in pre_hist:
                return True
    return False


def _fail_cause(r, empty_asc):
    if r.outcome[0] == "exit" and r.outcome[1] == 32 and empty_asc:
        return "first-generation-folder-without-chain"
    if r.outcome[0] == "abort":
        return "abort:" + r.extra.get("abort_type", "?")
    return r.brief()


def shrink_candidates(sc):
    if sc.get("followup"):
        yield dict(sc, followup=None)
    # fewer setup ops
    for ops in ddmin_list(sc["ops"]):
        c = dict(sc)
        c["ops"] = ops
        yield c
    # smaller tree
    protected = set()
    for o in sc["ops"] + [sc["target"]] + ([sc["followup"]] if sc.get("followup") else []):
        if scen.is_cmd(o):
            for a in o["argv"]:
                if isinstance(a, str) and a.startswith("@R/"):
                    protected.add(a[3:])
        elif "path" in o:
            protected.add(o["path"])
    for tree in gen.shrink_tree_candidates(sc["world"]["tree"], protected):
        c = dict(sc)
        c["world"] = dict(sc["world"])
        c["world"]["tree"] = tree
        yield c
    # simpler environment
    for key, val in (("tz", "UTC0"), ("enum_profile", "sorted"), ("read_profile", "full"), ("clock_profile", "calm")):
        if sc["world"].get(key) != val:
            c = dict(sc)
            c["world"] = dict(sc["world"])
            c["world"][key] = val
            yield c
    # a single kill
    if isinstance(sc["kills"], list) and len(sc["kills"]) > 1:
        for kl in sc["kills"]:
            c = dict(sc)
            c["kills"] = [kl]
            yield c
