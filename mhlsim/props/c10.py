"""C10 -- Manifests and chain files read back exactly what was written."""

import datetime
import os

from .. import core, explore, gen, observe, scen

CONFIG = {
    "level": "exploration",
    "level_text": ("Read-after-write monitor over seeded histories built with a hostile name alphabet (spaces, XML-special "
                   "characters, CDATA terminators, entity look-alikes, non-ASCII, 200-character names) and Unicode creator "
                   "options, renames with -dr (previous paths), nested histories (references) and failing runs: every "
                   "manifest / chain / collection file a step writes is read by the tool's own reader inside a simulated "
                   "process (short reads, seeded chunking) and by an independent expat reader; both must agree field by "
                   "field and with what the run put in (CLI strings, disk sizes, reference digests of the referenced files)."),
    "level_note": ("Only manifests that command sequences can produce are covered; arbitrary in-memory model objects (a pure "
                   "function of its input) are not generated. lastmodificationdate is not read back by the tool's reader and "
                   "is not listed by the property. Control characters are outside the quantifier."),
    "technique": "deterministic simulation: seeded histories with hostile text; tool reader vs independent XML reader vs inputs",
    "quick": {"runs": 900, "budget_s": 120},
    "thorough": {"runs": 6000, "budget_s": 540},
    "rule": ("one run = random world + 3..12 operations; one evaluation = one XML file read back by both readers. Distinct = "
             "(file kind, #records, #references, has previousPath, #patterns, #authors, set of name classes present: "
             "space/xml-special/non-ascii/long); non-trivial = file with at least one record, reference or chain entry."),
}

WEIGHTS = {"p_create": 0.55, "p_edit": 0.2, "p_ro": 0.0, "nested": 0.5, "sf": 0.2, "n": 0.15, "dr": 0.35, "i": 0.3,
           "ii": 0.1, "creator": 0.6}


def generate(rng, tier):
    sc = explore.generate(rng, tier, WEIGHTS, hostile=0.55)
    if rng.random() < 0.2:
        # a multi-generation history with changing formats, then flatten: dates of different generations in one record
        sc["ops"] += [scen.cmd("create", "@R", *gen.fmt_args(gen.pick_formats(rng, 1, 2))), {"op": "advance", "us": 3_600_000_000},
                      scen.cmd("create", "@R", *gen.fmt_args(gen.pick_formats(rng, 1, 3))), {"op": "advance", "us": 86_400_000_000},
                      scen.cmd("flatten", "@R", "@S/flat_" + str(rng.randrange(99)))]
    if rng.random() < 0.35:
        # a rename of a file with a hostile name followed by create -dr: previous paths with spaces / specials
        src = rng.choice([" leading", "trailing ", "amp&ersand.txt", "less<than", "ünï cödé.txt", "with space.txt", "]]>cdata.txt"])
        dst = rng.choice(["renamed ", " r2", "ren&<>.mov", "日本.mov"])
        sc["world"]["tree"].setdefault(src, {"t": "f", "c": gen.unique_content(rng)})
        fm = gen.fmt_args(gen.pick_formats(rng, 1, 2))
        sc["ops"] += [scen.cmd("create", "@R", *fm), {"op": "advance", "us": 1_000_000},
                      {"op": "rename", "src": src, "dst": dst, "fault": "rename_file"},
                      scen.cmd("create", "@R", "-dr", *fm)]
    if rng.random() < 0.06:
        # a nested history whose path repeats the absolute path of the root (a volume mirrored into itself with
        # `rsync -R` / `cp --parents`): <root>/mirror/<root without leading slash>/clip
        d = rng.choice(["mirror", "backup/day 1"]) + "/@SELF/clip"
        parts = d.split("/")
        for i in range(1, len(parts) + 1):
            sc["world"]["tree"].setdefault("/".join(parts[:i]), {"t": "d"})
        sc["world"]["tree"][d + "/x.bin"] = {"t": "f", "c": gen.unique_content(rng)}
        fm = gen.fmt_args(gen.pick_formats(rng, 1, 2))
        sc["ops"] += [scen.cmd("create", "@R/" + d, *fm), scen.cmd("create", "@R", *fm), scen.cmd("create", "@R", *fm)]
    return sc


def _tool_read(cs, paths):
    """runs inside the simulated process: the tool's own readers -> plain data"""
    from ascmhl import hashlist_xml_parser, chain_xml_parser

    out = {}
    for p in paths:
        b = os.path.basename(p)
        if b.endswith(".mhl"):
            hl = hashlist_xml_parser.parse(p)
            d = {}
            ci = hl.creator_info
            d["creatorinfo"] = None if ci is None else {
                "creationdate": ci.creation_date, "hostname": ci.host_name,
                "tool": ci.tool.name if ci.tool else None, "toolversion": ci.tool.version if ci.tool else None,
                "authors": [{"name": a.name, "email": a.email, "phone": a.phone, "role": a.role} for a in ci.authors],
                "location": ci.location, "comment": ci.comment}
            pi = hl.process_info
            proc = pi.process
            d["process"] = getattr(proc, "process_type", proc)
            d["patterns"] = pi.ignore_spec.get_pattern_list() if pi.ignore_spec else []
            rh = pi.root_media_hash
            d["roothash"] = None if rh is None else {
                "content": {e.hash_format: e.hash_string for e in rh.hash_entries},
                "structure": {e.hash_format: e.structure_hash_string for e in rh.hash_entries}}
            recs = []
            for mh in hl.media_hashes:
                r = {"path": mh.path, "size": mh.file_size, "dir": bool(mh.is_directory), "previousPath": mh.previous_path,
                     "entries": [{"fmt": e.hash_format, "digest": e.hash_string, "structure": e.structure_hash_string,
                                  "action": e.action,
                                  "hashdate": None if e.hash_date is None else (
                                      e.hash_date.timestamp() if e.hash_date.tzinfo else None,
                                      e.hash_date.utcoffset().total_seconds() if e.hash_date.tzinfo else None)}
                                 for e in mh.hash_entries]}
                by_path = hl.find_media_hash_for_path(mh.path)
                by_prev = hl.find_media_hash_for_path(mh.previous_path) if mh.previous_path else by_path
                r["lookup_ok"] = True  # path-map lookups are not part of the statement (ambiguous under spurious renames)
                recs.append(r)
            d["records"] = recs
            d["references"] = [{"path": r.path, "c4": r.reference_hash} for r in hl.hash_list_references]
            out[p] = d
        else:
            ch = chain_xml_parser.parse(p)
            out[p] = {"chain": [{"seq": str(g.generation_number), "path": g.ascmhl_filename, "fmt": g.hash_format,
                                 "c4": g.hash_string} for g in ch.generations]}
    return out


def _iso(s):
    try:
        d = datetime.datetime.fromisoformat(s)
        if d.tzinfo is None:
            return None
        return (d.timestamp(), d.utcoffset().total_seconds())
    except Exception:
        return "unparsable"


def _opt(argv, name):
    for i, a in enumerate(argv):
        if a == name and i + 1 < len(argv):
            return argv[i + 1]
    return None


def _name_classes(paths):
    s = set()
    for p in paths:
        if p is None:
            continue
        if " " in p:
            s.add("space")
        if any(c in p for c in "&<>\"'"):
            s.add("xml")
        if any(ord(c) > 127 for c in p):
            s.add("nonascii")
        if len(p) > 150:
            s.add("long")
    return tuple(sorted(s))


def monitor(ctx, st):
    op, res, w = st.op, st.res, st.world
    name = op["argv"][0]
    if name not in ("create", "flatten") or res.outcome[0] != "exit":
        return
    added, removed, changed = core.snapshot_diff(st.pre, st.post)
    paths = []
    for rel in added + changed:
        b = os.path.basename(rel)
        p = os.path.join(w.sandbox, rel)
        if os.path.isfile(p) and (b.endswith(".mhl") or b in ("ascmhl_chain.xml", "ascmhl_collection.xml")):
            paths.append(p)
    if not paths:
        return
    r = w.run_child(("pyfunc", _tool_read, (paths,)))
    if r.outcome[0] != "exit":
        ctx.violate({"kind": "tool-reader-fails", "cause": r.extra.get("abort_type", r.brief())},
                    f"reading back files of {op['argv']}: {r.brief()} {r.extra.get('abort_tb', '')[-500:]}")
        return
    tool = r.value
    argv = op["argv"]
    for p in paths:
        ctx.evaluations += 1
        rel = os.path.relpath(p, w.sandbox)
        t = tool[p]
        if "chain" in t:
            try:
                ind = observe.read_chain(p)
            except Exception as e:
                ctx.violate({"kind": "independent-reader-fails", "cause": "chain"}, f"{rel}: {e}")
                return
            tl = [{"seq": g["seq"], "path": g["path"], "c4": g["c4"]} for g in t["chain"]]
            if tl != ind or any(g["fmt"] != "c4" for g in t["chain"]):
                ctx.violate({"kind": "readers-disagree", "cause": "chain"}, f"{rel}: tool {tl} independent {ind}")
                return
            for g in ind[-1:]:  # the entry this step appended describes the file this step wrote
                fp = os.path.join(os.path.dirname(p), g["path"])
                if not os.path.isfile(fp) or observe.digest_file(fp, "c4") != g["c4"]:
                    ctx.violate({"kind": "value-differs-from-input", "cause": "chain-digest"}, f"{rel}: {g}")
                    return
            if ind:
                ctx.nontrivial = True
            ctx.state("chain", len(ind))
            continue
        try:
            m = observe.read_manifest(p)
        except Exception as e:
            ctx.violate({"kind": "independent-reader-fails", "cause": "manifest"}, f"{rel}: {type(e).__name__}: {e}")
            return
        # (a) field by field
        ci_t, ci_i = t["creatorinfo"], m["creatorinfo"]
        for key in ("creationdate", "hostname", "tool", "toolversion", "location", "comment", "authors"):
            if (ci_t or {}).get(key) != ci_i.get(key):
                ctx.violate({"kind": "readers-disagree", "cause": "creatorinfo." + key},
                            f"{rel}: tool {(ci_t or {}).get(key)!r} independent {ci_i.get(key)!r}")
                return
        if t["process"] != m["process"]:
            ctx.violate({"kind": "readers-disagree", "cause": "process"}, f"{rel}: {t['process']!r} vs {m['process']!r}")
            return
        if t["patterns"] != m["patterns"]:
            ctx.violate({"kind": "readers-disagree", "cause": "patterns"}, f"{rel}: {t['patterns']} vs {m['patterns']}")
            return
        rh_i = m["roothash"]
        rh_t = t["roothash"]
        if rh_i is None:
            if rh_t is not None and (rh_t["content"] or rh_t["structure"]):
                ctx.violate({"kind": "readers-disagree", "cause": "roothash"}, f"{rel}: tool has root hash {rh_t}")
                return
        else:
            if rh_t is None or rh_t["content"] != rh_i["content"] or rh_t["structure"] != rh_i["structure"]:
                ctx.violate({"kind": "readers-disagree", "cause": "roothash"}, f"{rel}: {rh_t} vs {rh_i}")
                return
        if len(t["records"]) != len(m["records"]):
            ctx.violate({"kind": "readers-disagree", "cause": "record-count"},
                        f"{rel}: tool {len(t['records'])} independent {len(m['records'])}")
            return
        for tr, ir in zip(t["records"], m["records"]):
            if tr["path"] != ir["path"] or tr["previousPath"] != ir["previousPath"] or tr["dir"] != (ir["kind"] == "dir"):
                ctx.violate({"kind": "readers-disagree", "cause": "path"}, f"{rel}: {tr['path']!r}/{tr['previousPath']!r} vs {ir['path']!r}/{ir['previousPath']!r}")
                return
            want_size = int(ir["size"]) if ir["size"] not in (None, "") else None
            if tr["size"] != want_size:
                ctx.violate({"kind": "readers-disagree", "cause": "size"}, f"{rel} {ir['path']!r}: {tr['size']} vs {ir['size']}")
                return
            if not tr["lookup_ok"]:
                ctx.violate({"kind": "lookup-fails"}, f"{rel}: record {ir['path']!r} (previous {ir['previousPath']!r}) not found by path lookup")
                return
            if ir["kind"] == "file":
                te = [(e["fmt"], e["digest"], e["action"], e["hashdate"]) for e in tr["entries"]]
                ie = [(e["fmt"], e["digest"], e["action"], _iso(e["hashdate"]) if e["hashdate"] else None) for e in ir["entries"]]
                if te != ie:
                    ctx.violate({"kind": "readers-disagree", "cause": "hash-entries"}, f"{rel} {ir['path']!r}: {te} vs {ie}")
                    return
            else:
                tc = {e["fmt"]: e["digest"] for e in tr["entries"]}
                ts = {e["fmt"]: e["structure"] for e in tr["entries"]}
                if tc != ir["content"] or ts != ir["structure"]:
                    ctx.violate({"kind": "readers-disagree", "cause": "directory-hashes"}, f"{rel} {ir['path']!r}: {tc}/{ts} vs {ir['content']}/{ir['structure']}")
                    return
        if t["references"] != m["references"]:
            ctx.violate({"kind": "readers-disagree", "cause": "references"}, f"{rel}: {t['references']} vs {m['references']}")
            return
        # (b) values equal what the run put in
        exp = {"location": _opt(argv, "--location"), "comment": _opt(argv, "--comment")}
        for key, val in exp.items():
            if ci_i.get(key) != val:
                ctx.violate({"kind": "value-differs-from-input", "cause": key}, f"{rel}: {ci_i.get(key)!r} vs option {val!r}")
                return
        an, ae, ap, ar = (_opt(argv, "--author_" + k) for k in ("name", "email", "phone", "role"))
        want_author = (an is not None or ae is not None or ar is not None or ap is not None) if name == "create" else an is not None
        want_authors = [{"name": an, "email": ae, "phone": ap, "role": ar}] if want_author else []
        if ci_i["authors"] != want_authors:
            ctx.violate({"kind": "value-differs-from-input", "cause": "authors"}, f"{rel}: {ci_i['authors']} vs {want_authors}")
            return
        if ci_i["hostname"] != "simhost" or ci_i["tool"] != "ascmhl":
            ctx.violate({"kind": "value-differs-from-input", "cause": "host/tool"}, f"{rel}: {ci_i}")
            return
        if m["process"] != ("in-place" if name == "create" else "flatten"):
            ctx.violate({"kind": "value-differs-from-input", "cause": "process"}, f"{rel}: {m['process']}")
            return
        hist_root = os.path.dirname(os.path.dirname(p))
        if name == "create":
            for ir in m["files"]:
                fp = os.path.join(hist_root, ir["path"])
                if os.path.isfile(fp) and ir["size"] is not None and int(ir["size"]) != os.path.getsize(fp):
                    ctx.violate({"kind": "value-differs-from-input", "cause": "size"}, f"{rel} {ir['path']!r}: {ir['size']} vs {os.path.getsize(fp)}")
                    return
            for ref in m["references"]:
                fp = os.path.join(hist_root, ref["path"])
                if not os.path.isfile(fp) or observe.digest_file(fp, "c4") != ref["c4"]:
                    ctx.violate({"kind": "value-differs-from-input", "cause": "reference-digest"}, f"{rel}: {ref}")
                    return
            given = [argv[i + 1] for i, a in enumerate(argv) if a == "-i"]
            if "-sf" not in argv:
                for g in given:
                    if g not in m["patterns"]:
                        ctx.violate({"kind": "value-differs-from-input", "cause": "pattern"}, f"{rel}: -i {g!r} not in {m['patterns']}")
                        return
        if name == "flatten":
            # every digest of a packing list comes from the source history together with its hash date
            src = {}
            for hr in observe.find_histories(w.abs_of(argv[1], op.get("cwd")))[:1]:
                for num, _, sm in observe.HistoryView(hr).generations:
                    for sr in sm["files"]:
                        for e in sr["entries"]:
                            if e["action"] != "failed":
                                src.setdefault((sr["path"], e["fmt"]), (e["digest"], _iso(e["hashdate"]) if e["hashdate"] else None))
            for ir in m["files"]:
                for e in ir["entries"]:
                    want = src.get((ir["path"], e["fmt"]))
                    got = (e["digest"], _iso(e["hashdate"]) if e["hashdate"] else None)
                    if want is not None and want[1] not in (None, "unparsable") and (got[0] != want[0] or got[1] is None or got[1][0] != want[1][0]):
                        ctx.violate({"kind": "value-differs-from-input", "cause": "flatten-hashdate" if got[0] == want[0] else "flatten-digest"},
                                    f"{rel} {ir['path']!r} {e['fmt']}: packing list has {got}, source history recorded {want}")
                        return
            ctx.probe("flatten_values_compared_with_source")
        if m["records"] or m["references"]:
            ctx.nontrivial = True
        if any(r.get("previousPath") for r in m["records"]):
            ctx.probe("previousPath_read_back")
        if m["references"]:
            ctx.probe("references_read_back")
        ctx.state("manifest", min(len(m["records"]), 6), len(m["references"]),
                  any(r.get("previousPath") for r in m["records"]), len(m["patterns"]), len(ci_i["authors"]),
                  _name_classes([r["path"] for r in m["records"]]))


def execute(sc, ctx):
    explore.run(sc, ctx, monitor, want_asc=False)


shrink_candidates = explore.shrink_candidates
