"""C12 -- Ignore patterns exclude consistently and only ever accumulate."""

import os

from .. import core, explore, gen, model, observe, scen
from ..driver import ddmin_list

CONFIG = {
    "level": "exploration",
    "level_text": ("Seeded exploration of trees that contain entries matched by generated patterns (base names incl. directory "
                   "names, *.ext, pre*, name/), generations that add patterns via -i, repeated -i and -ii files (blank lines, "
                   "duplicates), nested histories sealed from the parent, and then faults aimed at ignored files (edit, add, "
                   "remove) before verify, diff and verify -dh. Oracles: no record and no read of an ignored path (read log "
                   "of the simulated process), directory hashes equal the reference over non-ignored entries, identical exit "
                   "code and no mention of ignored paths after the faults, and pattern lists that keep the previous list in "
                   "order and add exactly the new patterns without duplicates (also in nested generations)."),
    "level_note": ("Patterns are restricted to position-independent forms; for create -sf only 'previous patterns preserved in "
                   "order' is judged (open reading, DESIGN C12); a directory matched only by 'name/' is listed empty, as "
                   "pathspec defines."),
    "technique": "deterministic simulation: seeded pattern/history exploration + faults in ignored files, read-log and record oracles",
    "quick": {"runs": 1000, "budget_s": 120},
    "thorough": {"runs": 7000, "budget_s": 540},
    "rule": ("one run = world with ignorable entries + 2..6 creates adding patterns + a fault phase on ignored files with "
             "verify/diff/verify -dh before and after; one evaluation = one judged command. Distinct = (command, #patterns, "
             "pattern kinds used, nested, #ignored entries on disk, fault kinds, exit); non-trivial = a step in which at "
             "least one entry on disk is matched by a non-default pattern."),
}

PATS = {"*.bak": ["x.bak", "old.bak"], "tmp*": ["tmpA", "tmp_2.bin"], "cache/": ["cache/c1", "cache/deep/c2"],
        "notes": ["notes"], "*.xml": ["sidecar.xml"], "skipdir": ["skipdir/s1.bin"], "pre*": ["prefix.dat"],
        "z9": ["z9"], "thumbs/": ["thumbs/t.jpg"],
        # patterns with an inner slash are anchored at the root of the history that applies them
        "P/Q/*.tmp": ["P/Q/render.tmp", "P/Q/later.tmp"], "/R1/R2/x.dat": ["R1/R2/x.dat"], "S/T/": ["S/T/u.bin"],
        "Q/later.tmp": ["Q/later.tmp"], "P/*/deep.bin": ["P/Q/deep.bin", "P/W/deep.bin"],
        # a backslash is an ordinary character of a POSIX file name; these patterns match across it
        "ren*.cch": ["ren\\der.cch"], "back?slash.dat": ["back\\slash.dat"],
        # line separator characters other than \n / \r are ordinary characters of a name and of a pattern-file line
        "scratch\u2028notes": ["scratch\u2028notes"], "nel\u0085*": ["nel\u0085x.bin"]}


def generate(rng, tier):
    env = gen.gen_env(rng)
    tree = gen.gen_tree(rng, max_entries=8, max_depth=2, hostile=0.1, file_pool=["a.txt", "b.bin", "clip01.mov", "data.csv", "take.wav"])
    pats = rng.sample(sorted(PATS), rng.randint(1, 4))
    dirs = [""] + gen.tree_dirs(tree)
    for p in pats:
        for victim in PATS[p]:
            parent = rng.choice(dirs)
            if "/" in p.rstrip("/"):
                if parent and rng.random() < 0.5:
                    # a decoy at another depth, which the anchored pattern does not match
                    for i in range(1, len((parent + "/" + victim).split("/"))):
                        tree.setdefault("/".join((parent + "/" + victim).split("/")[:i]), {"t": "d"})
                    tree.setdefault(parent + "/" + victim, {"t": "f", "c": gen.unique_content(rng)})
                parent = ""
            rel = f"{parent}/{victim}" if parent else victim
            parts = rel.split("/")
            for i in range(1, len(parts)):
                tree.setdefault("/".join(parts[:i]), {"t": "d"})
            if rel not in tree:
                tree[rel] = {"t": "f", "c": gen.unique_content(rng)}
    env["tree"] = tree
    nested = []
    cand = [d for d in gen.tree_dirs(tree) if not any(seg in ("cache", "skipdir", "thumbs", "T") for seg in d.split("/"))]
    if cand and rng.random() < 0.5:
        nested = rng.sample(cand, min(len(cand), rng.randint(1, 2)))
    ops = []
    late_nested = [n for n in nested if rng.random() < 0.4]
    for sub in nested:
        if sub in late_nested:
            continue
        args = gen.fmt_args(gen.pick_formats(rng, 1, 2))
        if rng.random() < 0.4:
            args += ["-i", rng.choice(sorted(PATS))]
        ops.append(scen.cmd("create", scen.root_arg(sub), *args))
    if rng.random() < 0.4:
        lines = [rng.choice(pats) for _ in range(rng.randint(1, 3))]
        special = [p_ for p_ in pats if any(ch in p_ for ch in "\u2028\u0085")]
        if special:
            lines.append(special[0])
        text = "\n".join(lines) + ("\n\n" if rng.random() < 0.5 else "\n") + (lines[0] + "\n" if rng.random() < 0.5 else "")
        ops.append({"op": "write", "path": "@M/patterns.txt", "c": {"text": text}})
        have_file = True
    else:
        have_file = False
    fmt0 = gen.pick_formats(rng, 1, 2)
    for g in range(rng.randint(2, 5)):
        args = gen.fmt_args(fmt0 if rng.random() < 0.7 else gen.pick_formats(rng, 1, 2))
        r = rng.random()
        if r < 0.55:
            for _ in range(rng.randint(1, 3)):
                args += ["-i", rng.choice(pats)]
        elif r < 0.75 and have_file:
            args += ["-ii", "@M/patterns.txt"]
            if rng.random() < 0.5:
                args += ["-i", rng.choice(pats)]
        root = "@R"
        if nested and rng.random() < 0.15:
            root = scen.root_arg(rng.choice(nested))
        if rng.random() < 0.1:
            files = gen.tree_files(tree)
            args += ["-sf", "@R/" + rng.choice(files)]
            root = "@R"
        ops.append(scen.cmd("create", root, *args))
        ops.append(scen.gen_advance(rng) if rng.random() < 0.85 else {"op": "step_back", "us": rng.choice([3_600_000_000, 7_200_000_000, 90_000_000])})
        if late_nested and g >= 0 and rng.random() < 0.6:
            # a nested history that starts its life after the parent already carries patterns
            sub = late_nested.pop()
            ops.append(scen.cmd("create", scen.root_arg(sub), *gen.fmt_args(gen.pick_formats(rng, 1, 2))))
            ops.append(scen.gen_advance(rng))
    if nested and rng.random() < 0.3:
        # a partial generation for a file inside a nested history (the root only gets references), then the root again:
        # the stored patterns have to survive a generation without records
        inner = [f for f in gen.tree_files(tree) if any(f.startswith(n + "/") for n in nested)]
        if inner:
            ops.append(scen.cmd("create", "@R", *gen.fmt_args(fmt0), "-sf", "@R/" + rng.choice(inner)))
            ops.append(scen.gen_advance(rng))
            ops.append(scen.cmd("create", "@R", *gen.fmt_args(fmt0)))
            ops.append(scen.gen_advance(rng))
    ops.append({"op": "ignored_fault_phase", "seed": rng.getrandbits(32), "n": rng.randint(1, 3)})
    return {"world": env, "ops": ops}


def _is_default_excluded(relpath):
    parts = relpath.split("/")
    return "ascmhl" in parts or parts[-1] == ".DS_Store"


def monitor(ctx, st):
    A = model.analyze_create(st)
    if A is None:
        return
    if A.error:
        ctx.violate({"kind": "manifest-unreadable"}, A.error)
        return
    w = st.world
    desc = f"{A.argv} (exit {A.exit})"
    rel = lambda p: os.path.relpath(p, w.root)
    # (c) pattern lists
    for hr, gens in A.new.items():
        m = gens[0][2]
        prevh = A.pre.get(hr)
        prev = list(prevh["gens"][-1][2]["patterns"]) if prevh and prevh["gens"] else None
        got = m["patterns"]
        if len(set(got)) != len(got):
            ctx.violate({"kind": "duplicate-pattern", "clause": "c"}, f"{desc}: {rel(hr)}: {got}")
            return
        if prev is not None and got[: len(prev)] != prev:
            ctx.violate({"kind": "previous-patterns-not-preserved", "clause": "c", "mode": A.mode},
                        f"{desc}: {rel(hr)}: previous {prev} new {got}")
            return
        if A.mode == "folder":
            want = set(prev if prev is not None else observe.default_patterns()) | set(A.effective)
            if set(got) != want:
                ctx.violate({"kind": "pattern-set-differs", "clause": "c",
                             "cause": "missing" if want - set(got) else "extra", "nested": hr != A.cmd_root},
                            f"{desc}: {rel(hr)}: patterns {got}, expected set {sorted(want)} (previous {prev})")
                return
    if A.mode != "folder":
        return
    # (a) records: nothing that the effective spec matches, nothing inside ascmhl, no .DS_Store
    n_ignored_on_disk = 0
    for d, subs, files in os.walk(A.cmd_root):
        for n in subs + files:
            p = os.path.join(d, n)
            if A.is_ignored(p) and not _is_default_excluded(os.path.relpath(p, A.cmd_root)):
                n_ignored_on_disk += 1
    for hr, gens in A.new.items():
        m = gens[0][2]
        for r in m["records"]:
            ap = os.path.normpath(os.path.join(hr, r["path"]))
            rp = os.path.relpath(ap, A.cmd_root)
            if _is_default_excluded(rp) or _ancestor_ignored(ap, A):
                ctx.violate({"kind": "ignored-path-recorded", "clause": "a"}, f"{desc}: {rel(hr)} records {r['path']!r}")
                return
    # never hashed: the read log of the process contains no ignored media path
    for rrel, nbytes in st.res.reads.items():
        ap = os.path.join(w.base, rrel)
        if not ap.startswith(A.cmd_root + os.sep):
            continue
        rp = os.path.relpath(ap, A.cmd_root)
        if _is_default_excluded(rp):
            continue
        if _ancestor_ignored(ap, A):
            ctx.violate({"kind": "ignored-path-read", "clause": "a"}, f"{desc}: read {nbytes} bytes of ignored {rp!r}")
            return
    # directory hashes over non-ignored entries only
    if not A.nodh:
        for fmt in A.formats:
            memo = {}
            observe.dir_hashes(A.cmd_root, fmt, A.is_ignored, memo)
            for hr, gens in A.new.items():
                m = gens[0][2]
                if hr in memo:
                    rh = m["roothash"]
                    if rh is None or (rh["content"].get(fmt), rh["structure"].get(fmt)) != memo[hr]:
                        ctx.violate({"kind": "directory-hash-includes-ignored", "clause": "a", "cause": "roothash"},
                                    f"{desc}: {rel(hr)} roothash {fmt} {rh and rh['content'].get(fmt)} != {memo[hr][0]}")
                        return
                for r in m["dirs"]:
                    ap = os.path.normpath(os.path.join(hr, r["path"]))
                    if ap in memo and (r["content"].get(fmt), r["structure"].get(fmt)) != memo[ap]:
                        ctx.violate({"kind": "directory-hash-includes-ignored", "clause": "a", "cause": "directoryhash"},
                                    f"{desc}: {rel(hr)} dir {r['path']!r} {fmt}: {r['content'].get(fmt)} != {memo[ap][0]}")
                        return
    if n_ignored_on_disk:
        ctx.nontrivial = True
    kinds = tuple(sorted({("dir" if p.endswith("/") else "glob" if "*" in p else "name") for p in A.effective
                          if p not in observe.default_patterns()}))
    ctx.state("create", len(A.effective), kinds, len(A.new) > 1, min(n_ignored_on_disk, 5), A.exit)
    if len(A.new) > 1 and A.cli_patterns:
        ctx.probe("parent_patterns_into_nested_generation")


def _ancestor_ignored(ap, A):
    """the path or one of its ancestors below the command root is matched by the effective spec"""
    p = ap
    while p != A.cmd_root and p.startswith(A.cmd_root + os.sep):
        if A.is_ignored(p):
            return True
        p = os.path.dirname(p)
    return False


def _fault_phase(ctx, w, op):
    """(b): faults on ignored files must be invisible to verify / diff / verify -dh"""
    hv = observe.HistoryView(w.root)
    if hv.error or not hv.generations:
        return
    pats = hv.latest_patterns() or observe.default_patterns()
    ig = observe.make_ignore(pats, w.root)
    ignored_files, ignored_dirs = [], []
    for d, subs, files in os.walk(w.root):
        if "ascmhl" in subs:
            subs.remove("ascmhl")
        for n in list(subs):
            p = os.path.join(d, n)
            if ig(p):
                ignored_dirs.append(p)
        for n in files:
            p = os.path.join(d, n)
            q = p
            hit = False
            while q != w.root:
                if ig(q):
                    hit = True
                    break
                q = os.path.dirname(q)
            if hit and n != ".DS_Store":
                ignored_files.append(p)
    ignored_files.sort()
    nondefault = [p for p in pats if p not in observe.default_patterns()]
    if not nondefault:
        ctx.probe("fault_phase_no_patterns_na")
        return
    cmds = [["verify", w.root], ["diff", w.root], ["verify", w.root, "-dh"]]
    base = []
    for argv in cmds:
        r = w.run_cmd(argv)
        base.append(r)
        ctx.evaluations += 1
    # faults
    touched = []
    created_dirs = []
    for i in range(op["n"]):
        r = core.h64(op["seed"], i)
        kind = r % 4
        if kind == 0 and ignored_files:
            p = ignored_files[(r >> 8) % len(ignored_files)]
            if w.apply_env({"op": "rewrite", "path": os.path.relpath(p, w.root), "seed": r, "fault": "edit_ignored_file"}) or \
                    w.apply_env({"op": "append", "path": os.path.relpath(p, w.root), "c": {"text": "x"}, "fault": "edit_ignored_file"}):
                touched.append(p)
        elif kind == 1 and ignored_files:
            p = ignored_files[(r >> 8) % len(ignored_files)]
            if w.apply_env({"op": "remove", "path": os.path.relpath(p, w.root), "fault": "remove_ignored_file"}):
                touched.append(p)
                ignored_files.remove(p)
        elif kind == 2:
            # add a new file that matches a pattern
            pat = nondefault[(r >> 8) % len(nondefault)]
            name = None
            if "/" in pat.rstrip("/"):
                # anchored at the root: the new file has to sit exactly where the pattern points
                body = pat.strip("/")
                if pat.endswith("/"):
                    name = body + "/added_%d.bin" % (r % 97)
                elif body.count("*") == 1 and "*" in body.split("/")[-1] and "?" not in body:
                    name = body.replace("*", "added_%d" % (r % 97))
            elif pat.endswith("/"):
                name = pat + "added_%d.bin" % (r % 97)
            elif pat.startswith("*."):
                name = "added_%d%s" % (r % 97, pat[1:])
            elif pat.endswith("*"):
                name = pat[:-1] + "added_%d" % (r % 97)
            elif "*" not in pat and "?" not in pat:
                name = "newdir_%d/%s" % (r % 7, pat)
            if name:
                if not os.path.isdir(os.path.dirname(os.path.join(w.root, name))):
                    created_dirs.append(name)
                if w.apply_env({"op": "write", "path": name, "c": {"gen": [r, 9]}, "fault": "add_ignored_file"}):
                    touched.append(os.path.join(w.root, name))
                    # a brand-new parent directory is itself not ignored; only count the file as ignored
        elif kind == 3 and ignored_dirs:
            d = ignored_dirs[(r >> 8) % len(ignored_dirs)]
            name = os.path.relpath(d, w.root) + "/inside_%d.bin" % (r % 97)
            if w.apply_env({"op": "write", "path": name, "c": {"gen": [r, 5]}, "fault": "add_file_in_ignored_dir"}):
                touched.append(os.path.join(w.root, name))
    if not touched:
        ctx.probe("fault_phase_nothing_fired")
        return
    ctx.nontrivial = True
    newdirs = bool(created_dirs)
    for argv, b in zip(cmds, base):
        r = w.run_cmd(argv)
        ctx.evaluations += 1
        name = " ".join(argv[:1] + argv[2:])
        ctx.state("fault-phase", name, b.brief(), len(touched))
        if b.aborted:
            continue
        if newdirs and argv[-1] == "-dh":
            continue  # a new (non-ignored) directory legitimately changes directory hashes
        if r.outcome != b.outcome:
            ctx.violate({"kind": "ignored-change-visible", "clause": "b", "cmd": name,
                         "cause": f"{b.brief()}->{r.brief()}"},
                        f"{name}: {b.brief()} before, {r.brief()} after faults on ignored paths "
                        f"{[os.path.relpath(t, w.root) for t in touched]}; patterns {pats}; {r.stderr[-300:]}")
            return
        text = r.stdout + r.stderr
        for t in touched:
            rp = os.path.relpath(t, w.root)
            if _mentions(text, rp):
                ctx.violate({"kind": "ignored-path-reported", "clause": "b", "cmd": name},
                            f"{name}: output reports ignored {rp!r}: {_mentions(text, rp)[:200]}")
                return
    # control: a recorded, non-ignored file disappears -> it (and nothing that is ignored) is reported missing
    from .c03 import parse_reports

    recorded = set()
    for num, _, m in hv.generations:
        recorded |= {r["path"] for r in m["files"]}
    alive = sorted(p_ for p_ in recorded if os.path.isfile(os.path.join(w.root, p_)) and not any(
        ig(os.path.join(w.root, *p_.split("/")[: i + 1])) for i in range(len(p_.split("/")))))
    if alive and base[1].outcome == ("exit", 0):
        victim = alive[core.h64(op["seed"], "victim") % len(alive)]
        if w.apply_env({"op": "remove", "path": victim, "fault": "remove_recorded_file_control"}):
            for argv in (["verify", w.root], ["diff", w.root]):
                r = w.run_cmd(argv)
                ctx.evaluations += 1
                _, missing, _ = parse_reports(r.stderr + "\n" + r.stdout)
                bad = sorted(m_ for m_ in missing if m_.strip() != victim.strip())
                if bad:
                    ctx.violate({"kind": "ignored-path-reported", "clause": "b", "cmd": argv[0], "cause": "as-missing"},
                                f"{argv[0]} after removing {victim!r}: also reports {bad[:4]} as missing; patterns {pats}")
                    return


def _mentions(text, rp):
    """a line that reports rp as new / missing / mismatching (whole-token match, not a substring of a digest)"""
    import re

    tok = re.compile(r"(^|\s)" + re.escape(rp) + r"(\s|$)")
    for line in text.split("\n"):
        if "directory hash" in line or "content hash" in line or "structure hash" in line:
            continue
        if line.strip() == rp or (tok.search(line) and ("found new file" in line or "hash mismatch" in line)):
            return line.strip()
    return None


def execute(sc, ctx):
    w = core.World(sc["world"], ctx.subdir("main"))
    for i, op in enumerate(sc["ops"]):
        if op.get("op") == "ignored_fault_phase":
            _fault_phase(ctx, w, op)
            continue
        st = explore.Step()
        st.index, st.op, st.world = i, op, w
        if scen.is_cmd(op):
            st.pre_asc = scen.all_ascmhl_files(w.sandbox)
            res, fired = scen.run_op(w, op)
            st.res = res
            st.post_asc = scen.all_ascmhl_files(w.sandbox)
            ctx.steps += 1
            ctx.evaluations += 1
            ctx.note("cmd", op["argv"], res.outcome, [(e[1], e[2], e[3]) for e in res.effects])
            monitor(ctx, st)
            if ctx.violations:
                break
        else:
            fired = w.apply_env(op)
            ctx.note("env", op, fired)
    ctx.absorb_world(w)
    ctx.sample = [o["argv"] if scen.is_cmd(o) else o for o in sc["ops"]][:8]


def shrink_candidates(sc):
    yield from explore.shrink_candidates(sc)
