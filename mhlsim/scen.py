"""mhlsim.scen -- shared scenario vocabulary: operation lists, history generators, the op interpreter."""

import os

from . import core, gen, observe


def cmd(name, *args, **kw):
    d = {"op": "cmd", "argv": [name] + list(args)}
    d.update(kw)
    return d


def is_cmd(op):
    return op.get("op") == "cmd"


def run_op(world, op, kill=None, hooks=None):
    """-> (result or None, fired)"""
    if is_cmd(op):
        argv = [world.expand(a) for a in op["argv"]]
        cwd = world.expand(op["cwd"]) if op.get("cwd") else None
        return world.run_cmd(argv, cwd=cwd, kill=kill or op.get("kill"), hooks=hooks), True
    return None, world.apply_env(op)


def run_ops(world, ops, ctx=None, stop_on_abort=False):
    out = []
    for op in ops:
        res, fired = run_op(world, op)
        out.append((op, res, fired))
        if ctx is not None:
            ctx.steps += 1
            if res is not None:
                ctx.note("cmd", [a.replace(world.base, "<BASE>") if isinstance(a, str) else a for a in op["argv"]],
                         res.outcome, [(e[1], e[2], e[3]) for e in res.effects])
            else:
                ctx.note("env", op, fired)
        if stop_on_abort and res is not None and res.aborted:
            break
    return out


def subroots_of(tree, rng, max_n=2):
    dirs = gen.tree_dirs(tree)
    rng.shuffle(dirs)
    return sorted(dirs[: rng.randint(0, min(max_n, len(dirs)))])


def root_arg(rel):
    return "@R" if rel in ("", ".") else "@R/" + rel


def gen_edit(rng, tree_state, kinds=("add", "alter", "remove", "touch"), protect=()):
    """one environment edit against the (tracked) tree state; updates tree_state; returns op or None"""
    files = [f for f in gen.tree_files(tree_state) if f not in protect]
    dirs = [""] + gen.tree_dirs(tree_state)
    kind = rng.choice(kinds)
    if kind == "add" or not files:
        parent = rng.choice(dirs)
        name = rng.choice(gen.SIMPLE_FILES + ["new1.bin", "new2.bin", "zz.new"])
        rel = f"{parent}/{name}" if parent else name
        if rel in tree_state:
            return None
        c = gen.unique_content(rng)
        tree_state[rel] = {"t": "f", "c": c}
        return {"op": "write", "path": rel, "c": c, "fault": "add_file"}
    target = rng.choice(files)
    if kind == "alter":
        sub = rng.choice(["flip", "rewrite", "append", "truncate"])
        if sub == "flip":
            return {"op": "flip", "path": target, "byte": rng.randrange(1 << 20), "bit": rng.randrange(8), "fault": "flip_bit"}
        if sub == "rewrite":
            return {"op": "rewrite", "path": target, "seed": rng.getrandbits(32), "fault": "overwrite_same_size"}
        if sub == "append":
            return {"op": "append", "path": target, "c": gen.unique_content(rng, rng.choice([1, 5, 64])), "fault": "append"}
        return {"op": "truncate", "path": target, "size": rng.randrange(1 << 20), "fault": "truncate"}
    if kind == "remove":
        del tree_state[target]
        return {"op": "remove", "path": target, "fault": "remove_file"}
    if kind == "touch":
        return {"op": "touch", "path": target, "m": 1_400_000_000_000_000 + rng.randrange(10**9) * 1000, "fault": "touch_mtime"}
    return None


def gen_advance(rng):
    us = rng.choice([0, 0, 1, 400_000, 1_000_000, 2_500_000, 61_000_000, 3_600_000_000, 86_400_000_000,
                     15_768_000_000_000])
    return {"op": "advance", "us": us}


def gen_history_ops(rng, tree, n_gens=None, nested=None, p_sf=0.15, p_n=0.1, p_edit=0.0, p_pattern=0.0,
                    edit_kinds=("add", "alter", "remove", "touch"), formats_hi=3):
    """operations that build a (possibly nested) history over `tree`.  Returns (ops, info)."""
    tree_state = dict(tree)
    if nested is None:
        nested = subroots_of(tree, rng) if rng.random() < 0.5 else []
    n_gens = n_gens if n_gens is not None else rng.randint(1, 3)
    ops = []
    # first creations of the nested roots may happen before or after the outer root's first generation
    pending = list(nested)
    rng.shuffle(pending)
    early = [p for p in pending if rng.random() < 0.6]
    late = [p for p in pending if p not in early]
    for sub in early:
        ops.append(cmd("create", root_arg(sub), *gen.fmt_args(gen.pick_formats(rng, 1, formats_hi))))
        ops.append(gen_advance(rng))
    for g in range(n_gens):
        if g == 1:
            for sub in late:
                ops.append(cmd("create", root_arg(sub), *gen.fmt_args(gen.pick_formats(rng, 1, formats_hi))))
                ops.append(gen_advance(rng))
        if g > 0 and rng.random() < p_edit:
            e = gen_edit(rng, tree_state, edit_kinds)
            if e:
                ops.append(e)
        fmts = gen.pick_formats(rng, 1, formats_hi)
        args = gen.fmt_args(fmts)
        files = gen.tree_files(tree_state)
        if g > 0 and files and rng.random() < p_sf:
            target = rng.choice(files + gen.tree_dirs(tree_state))
            args += ["-sf", "@R/" + target]
        else:
            if rng.random() < p_n:
                args.append("-n")
            if rng.random() < p_pattern:
                args += ["-i", rng.choice(["*.bak", "tmp*", "cache/", "notes", "*.xml"])]
        ops.append(cmd("create", "@R", *args))
        ops.append(gen_advance(rng))
    if n_gens == 0:
        for sub in late:
            ops.append(cmd("create", root_arg(sub), *gen.fmt_args(gen.pick_formats(rng, 1, formats_hi))))
    return ops, {"nested": nested, "tree_state": tree_state}


def setup_ok(results, allowed=(0,)):
    """True if every command of a setup phase ended with one of the allowed exit codes"""
    for op, res, fired in results:
        if res is not None and op.get("kill") and res.outcome[0] == "killed":
            continue  # an interruption that the scenario asked for
        if res is not None and (res.outcome[0] != "exit" or res.outcome[1] not in allowed):
            return False
    return True


def all_ascmhl_files(base):
    """{rel: bytes} for every file inside any 'ascmhl' folder below base"""
    out = {}
    for d, subs, files in os.walk(base):
        if os.path.basename(d) == "ascmhl":
            for f in files:
                p = os.path.join(d, f)
                out[os.path.relpath(p, base)] = observe.read_bytes(p)
    return out
