"""mhlsim.simthread -- baton-passing thread scheduler, virtual join timeouts and the simulated update server.

Runs inside a simulated process (forked child).  Real OS threads execute the real `Updater` code, but exactly one
of them holds the baton at any time and the scheduler -- a pure function of (sched_seed, step counter) -- decides
who gets it at every scheduling point: Thread.start(), entry/exit of requests.get, join(), thread exit, every file
system effect of the command and every traced source line of ascmhl/cli/*.py.  When no task is runnable the virtual
clock jumps to the next event (delivery of the HTTP answer, expiry of a join timeout).
"""

import os
import sys
import threading
import traceback

from . import core

RealThread = threading.Thread
RealLock = threading.Lock
RealRLock = threading.RLock


class SimShutdown(BaseException):
    pass


class Task:
    def __init__(self, name, daemon):
        self.name = name
        self.daemon = daemon
        self.sem = threading.Semaphore(0)
        self.state = "runnable"  # runnable | net | join | done | new
        self.wake_at = None  # virtual µs for net / join-with-timeout
        self.join_target = None
        self.timed_out = False


class Scheduler:
    def __init__(self, cs, sched_seed, preempt_permille):
        self.cs = cs
        self.seed = sched_seed
        self.preempt = preempt_permille
        self.tasks = []
        self.current = None
        self.steps = 0
        self.trace = []  # (step, reason, chosen task)
        self.jumps_us = 0
        self.deadlock = False
        self.max_steps = 20000
        self.lock = threading.Lock()
        self.main = Task("main", False)
        self.tasks.append(self.main)
        self.current = self.main
        self.main_finished = False
        self.line_events = 0

    # -- helpers
    def now(self):
        return self.cs.clock.now_us

    def _runnable(self):
        return [t for t in self.tasks if t.state == "runnable"]

    def _pick(self, reason, candidates):
        self.steps += 1
        if self.steps > self.max_steps:
            raise core.HarnessError("scheduler step cap exceeded")
        if self.wall_step and self.steps == self.wall_step["at_step"]:
            # the wall clock is set back / forth here; the monotonic (scheduler) clock runs on
            self.cs.clock.wall_offset_us += self.wall_step["us"]
            self.cs.extra["wall_clock_stepped"] = self.wall_step["us"]
        idx = core.h64(self.seed, "pick", self.steps) % len(candidates)
        t = candidates[idx]
        self.trace.append((reason, t.name))
        return t

    def _advance_to_next_event(self):
        """nothing is runnable: jump the clock to the earliest wake-up; returns False on deadlock"""
        waiting = [t for t in self.tasks if t.state in ("net", "join") and t.wake_at is not None]
        if self.main_finished:
            # after the main thread ended only non-daemon tasks keep the process alive
            if not any(t.state != "done" and not t.daemon for t in self.tasks if t is not self.main):
                return False
        if not waiting:
            return False
        t = min(waiting, key=lambda x: (x.wake_at, x.name))
        if t.wake_at > self.now():
            self.jumps_us += t.wake_at - self.now()
            self.cs.clock.now_us = t.wake_at
        if t.state == "join":
            t.timed_out = True
        t.state = "runnable"
        t.wake_at = None
        return True

    def _handover(self, me, reason):
        """choose who runs next; called by the task that currently holds the baton"""
        while True:
            cands = self._runnable()
            if cands:
                nxt = self._pick(reason, cands)
                break
            if not self._advance_to_next_event():
                nxt = None
                break
        if nxt is me:
            return
        self.current = nxt
        if nxt is not None:
            nxt.sem.release()
        else:
            self.deadlock = True
            if self.main_finished:
                self.main.sem.release()  # the process-exit loop in run_cli_job continues
            elif me is self.main:
                raise VirtualHang()  # the main thread itself is blocked for ever
            else:
                self.hang = True
                self.main.sem.release()
        if me.state != "done":
            me.sem.acquire()
            if self.shutdown:
                raise SimShutdown()
            if me is self.main and self.hang:
                raise VirtualHang()

    hang = False
    shutdown = False
    wall_step = None

    # -- API used by tasks
    def yield_point(self, reason):
        me = self.current
        if me is None or threading.current_thread() is not getattr(me, "os_thread", threading.current_thread()):
            return
        self._handover(me, reason)

    def maybe_preempt(self, reason):
        self.line_events += 1
        if self.preempt and core.h64(self.seed, "pre", self.line_events) % 1000 < self.preempt:
            self.yield_point(reason)

    def spawn(self, task):
        self.tasks.append(task)
        task.state = "runnable"
        self.yield_point("start")

    def block_net(self, latency_us):
        me = self.current
        me.state = "net"
        me.wake_at = None if latency_us is None else self.now() + latency_us
        self._handover(me, "net-wait")

    def block_on_lock(self, lock):
        """the current task waits (in virtual time, without a deadline) until `lock` is released"""
        me = self.current
        me.state = "lock"
        me.lock = lock
        me.wake_at = None
        self._handover(me, "lock-wait")

    def lock_released(self, lock):
        for t in self.tasks:
            if t.state == "lock" and getattr(t, "lock", None) is lock:
                t.state = "runnable"
                t.lock = None

    def join(self, me_task_obj, target, timeout_s):
        me = self.current
        if target.state == "done":
            self.yield_point("join-done")
            return
        me.state = "join"
        me.join_target = target
        me.timed_out = False
        me.wake_at = None if timeout_s is None else self.now() + int(timeout_s * 1_000_000)
        self._handover(me, "join-wait")

    def task_done(self, task):
        task.state = "done"
        for t in self.tasks:
            if t.state == "join" and t.join_target is task:
                t.state = "runnable"
                t.wake_at = None
        try:
            self._handover(task, "exit")
        except VirtualHang:
            pass

    def release_all(self):
        self.shutdown = True
        for t in self.tasks:
            if t is not self.current:
                t.sem.release()


class VirtualHang(BaseException):
    pass


SCHED = None


class SimThread:
    """stand-in for threading.Thread while ascmhl.cli.* is imported"""

    _count = 0

    def __init__(self, group=None, target=None, name=None, args=(), kwargs=None, *, daemon=None):
        SimThread._count += 1
        self._target, self._args, self._kwargs = target, args, kwargs or {}
        self.name = name or f"SimThread-{SimThread._count}"
        self._daemon = bool(daemon) if daemon is not None else False
        self._task = None
        self._started = False
        self.ident = None

    @property
    def daemon(self):
        return self._daemon

    @daemon.setter
    def daemon(self, v):
        self._daemon = bool(v)
        if self._task is not None:
            self._task.daemon = bool(v)

    def setDaemon(self, v):
        self.daemon = v

    def isDaemon(self):
        return self._daemon

    def getName(self):
        return self.name

    def run(self):
        if self._target:
            self._target(*self._args, **self._kwargs)

    def start(self):
        if self._started:
            raise RuntimeError("threads can only be started once")
        self._started = True
        task = Task(self.name, self._daemon)
        self._task = task
        th = RealThread(target=self._bootstrap, daemon=True, name="os-" + self.name)
        task.os_thread = th
        th.start()
        SCHED.spawn(task)

    def _bootstrap(self):
        task = self._task
        task.sem.acquire()  # wait for the baton
        if SCHED.shutdown:
            return
        sys.settrace(_tracer)
        try:
            self.run()
        except SimShutdown:
            return
        except VirtualHang:
            return
        except BaseException:
            # like threading.excepthook: traceback to stderr, thread ends
            print(f"Exception in thread {self.name}:", file=sys.stderr)
            traceback.print_exc(file=sys.stderr)
        finally:
            sys.settrace(None)
        if not SCHED.shutdown:
            SCHED.task_done(task)

    def join(self, timeout=None):
        if not self._started:
            raise RuntimeError("cannot join thread before it is started")
        SCHED.join(None, self._task, timeout)

    def is_alive(self):
        return self._started and self._task.state != "done"

    isAlive = is_alive


CLI_DIR = os.path.join(core.REPO, "ascmhl", "cli") + os.sep


def _line_tracer(frame, event, arg):
    if event == "line" and SCHED is not None and not SCHED.shutdown:
        SCHED.maybe_preempt("line")
    return _line_tracer


TRACE_PREFIXES = (CLI_DIR,)  # source files whose lines are pre-emption points


def _tracer(frame, event, arg):
    if event == "call":
        code = frame.f_code
        if code.co_filename.startswith(TRACE_PREFIXES) and code.co_name != "<module>":
            return _line_tracer
    return None


def run_lib_threads_job(cs, calls, sched_seed, preempt_permille):
    """library use from several threads of one process (C01): every call [kind, path, arg] runs in its own simulated
    thread; the seeded scheduler pre-empts between source lines of ascmhl/hasher.py, so reads and updates of
    different files interleave"""
    global SCHED, TRACE_PREFIXES
    from ascmhl import hasher

    sched = SCHED = Scheduler(cs, sched_seed, preempt_permille)
    sched.max_steps = 5_000_000  # (read loops over many small reads take many scheduling decisions)
    sched.main.os_thread = threading.current_thread()
    TRACE_PREFIXES = (os.path.join(core.REPO, "ascmhl", "hasher.py"),)
    results = [None] * len(calls)

    def work(i, kind, path, arg):
        try:
            if kind == "hash_file":
                results[i] = hasher.hash_file(path, arg)
            else:
                results[i] = hasher.multiple_format_hash_file(path, arg)
        except BaseException as e:  # noqa
            results[i] = "exception: " + type(e).__name__ + ": " + str(e)[:200]

    threads = [SimThread(target=work, args=(i,) + tuple(c)) for i, c in enumerate(calls)]
    hang = False
    try:
        for t in threads:
            t.start()
        for t in threads:
            t.join()
    except VirtualHang:
        hang = True
    finally:
        TRACE_PREFIXES = (CLI_DIR,)
    switches = sum(1 for a, b in zip(sched.trace, sched.trace[1:]) if a[1] != b[1])
    return {"results": results, "hang": hang, "switches": switches, "line_events": sched.line_events}


# --- the simulated update server -------------------------------------------------------------------------------------


class SimLock:
    """stand-in for threading.Lock / RLock objects created while ascmhl.cli.* is imported: a task that finds the lock
    taken blocks in the scheduler (virtual time) instead of blocking the one real thread that holds the baton"""

    def __init__(self, reentrant=False):
        self._owner = None
        self._count = 0
        self._reentrant = reentrant

    def acquire(self, blocking=True, timeout=-1):
        me = SCHED.current if SCHED is not None else None
        while self._owner is not None and not (self._reentrant and self._owner is me):
            if not blocking or me is None:
                return False
            SCHED.block_on_lock(self)
        self._owner = me if me is not None else True
        self._count += 1
        return True

    def release(self):
        self._count -= 1
        if self._count <= 0:
            self._owner, self._count = None, 0
            if SCHED is not None:
                SCHED.lock_released(self)

    def locked(self):
        return self._owner is not None

    __enter__ = acquire

    def __exit__(self, *exc):
        self.release()


class FakeResponse:
    def __init__(self, status, body, body_wait="done"):
        self.status_code = status
        self._body = body  # ("json", obj) | ("notjson", kind)
        self.ok = status < 400
        self._body_wait = body_wait  # "done" | virtual microseconds the body still needs | None = never arrives
        self._text = repr(body)

    def _read_body(self):
        # with stream=True the body is downloaded when it is first asked for
        if self._body_wait != "done":
            wait, self._body_wait = self._body_wait, "done"
            SCHED.yield_point("body-enter")
            SCHED.block_net(wait)
            SCHED.cs.extra["net_delivered_at"] = SCHED.now()

    @property
    def text(self):
        self._read_body()
        return self._text

    @property
    def content(self):
        self._read_body()
        return self._text.encode()

    def raise_for_status(self):
        if self.status_code >= 400:
            import requests

            raise requests.exceptions.HTTPError(f"{self.status_code} Error", response=self)

    def json(self, **kw):
        self._read_body()
        kind, val = self._body
        if kind == "json":
            return val
        import requests

        if val == "requests":
            raise requests.exceptions.JSONDecodeError("Expecting value", "<html>", 0)
        raise ValueError("No JSON object could be decoded")


def make_sim_get(script):
    """script: {"latency_us": int|None, "kind": ..., ...}"""

    scripts = [script] + list(script.get("then") or [])
    calls = [0]

    def sim_get(url, *args, **kwargs):
        import requests

        # one behaviour per call (a client that retries meets the next one); the last behaviour repeats
        script = scripts[min(calls[0], len(scripts) - 1)]
        calls[0] += 1
        if calls[0] > 1:
            SCHED.cs.extra["net_calls"] = calls[0]
        SCHED.yield_point("net-enter")
        SCHED.block_net(script.get("latency_us"))
        SCHED.cs.extra["net_delivered_at"] = SCHED.now()
        kind = script["kind"]
        # the headers have arrived; the body may take longer ("body_latency_us", None = it never completes).  Without
        # stream=True requests.get only returns once the body is there, with it the body is read on first access
        bw = "done"
        if "body_latency_us" in script and kind != "exc":
            if kwargs.get("stream"):
                bw = script["body_latency_us"]
            else:
                SCHED.block_net(script["body_latency_us"])
                SCHED.cs.extra["net_delivered_at"] = SCHED.now()
        if kind == "tag":
            return FakeResponse(200, ("json", {"tag_name": script["tag"], "name": "release"}), bw)
        if kind == "no_tag":
            return FakeResponse(200, ("json", {"message": "Not Found"}), bw)
        if kind == "json_other":
            return FakeResponse(200, ("json", script["value"]), bw)
        if kind == "not_json":
            return FakeResponse(200, ("notjson", script.get("exc", "requests")), bw)
        if kind == "http":
            return FakeResponse(script["status"], ("json", {"message": "rate limit"}), bw)
        if kind == "exc":
            exc = {
                "ConnectionError": requests.exceptions.ConnectionError,
                "ConnectTimeout": requests.exceptions.ConnectTimeout,
                "ReadTimeout": requests.exceptions.ReadTimeout,
                "SSLError": requests.exceptions.SSLError,
                "OSError": OSError,
                "RuntimeError": RuntimeError,
            }[script["exc"]]
            raise exc("simulated " + script["exc"])
        raise core.HarnessError(f"bad net script {script!r}")

    return sim_get


def run_cli_job(cs, tool, argv, net_script, sched_seed, preempt_permille, wall_step=None):
    """the job executed inside the simulated process for C20.  tool: 'ascmhl' | 'ascmhl-debug'."""
    global SCHED
    import importlib
    import requests

    sched = SCHED = Scheduler(cs, sched_seed, preempt_permille)
    sched.wall_step = wall_step
    sched.main.os_thread = threading.current_thread()
    cs.on_effect = lambda seq, kind, rel: sched.yield_point("effect")
    requests.get = make_sim_get(net_script)
    # monotonic clocks follow the virtual clock too (budget / deadline arithmetic in the code under test)
    import time as _t

    _t.monotonic = lambda: cs.clock.now_us / 1e6
    _t.perf_counter = lambda: cs.clock.now_us / 1e6
    _t.monotonic_ns = lambda: cs.clock.now_us * 1000
    _t.perf_counter_ns = lambda: cs.clock.now_us * 1000
    for m in ("ascmhl.cli.update", "ascmhl.cli.ascmhl", "ascmhl.cli.ascmhl_debug"):
        sys.modules.pop(m, None)
    threading.Thread = SimThread
    # locks created by the code under test (module names starting with "ascmhl") take part in the simulation; everything
    # else -- the interpreter's own Thread / Event / Condition objects, logging, click -- keeps real locks: those are
    # touched by real threads outside the baton protocol (Thread.start() waits on an Event), and a simulated lock there
    # corrupts the scheduler once in a few thousand runs (soak seeds 1000/1001: a real-time stall that did not replay)
    def _lock_factory(reentrant):
        def make():
            caller = sys._getframe(1).f_globals.get("__name__", "")
            if caller.startswith("ascmhl"):
                return SimLock(reentrant=reentrant)
            return RealRLock() if reentrant else RealLock()

        return make

    threading.Lock = _lock_factory(False)
    threading.RLock = _lock_factory(True)
    t_start = sched.now()
    result = {"exit": None, "terminated": True, "virtual_hang": False}
    sys.settrace(_tracer)
    try:
        try:
            if tool == "ascmhl":
                mod = importlib.import_module("ascmhl.cli.ascmhl")
                group = mod.mhltool_cli
            else:
                mod = importlib.import_module("ascmhl.cli.ascmhl_debug")
                group = mod.mhldebugtool_cli
            threading.Thread = RealThread
            threading.Lock, threading.RLock = RealLock, RealRLock
            group.main(args=list(argv), prog_name=tool, standalone_mode=True)
            result["exit"] = 0
        except SystemExit as e:
            code = e.code
            result["exit"] = 0 if code is None else code if isinstance(code, int) else 1
        except VirtualHang:
            result["virtual_hang"] = True
            result["terminated"] = False
        except SimShutdown:
            raise core.HarnessError("main received SimShutdown")
        except core.HarnessError:
            raise
        except BaseException as e:
            result["exit"] = "abort:" + type(e).__name__
            cs.extra["abort_tb"] = traceback.format_exc()[-2000:]
    finally:
        sys.settrace(None)
        threading.Thread = RealThread
        threading.Lock, threading.RLock = RealLock, RealRLock
    result["main_end_us"] = sched.now()
    # process exit: daemon threads are discarded, non-daemon threads must finish
    if not result["virtual_hang"]:
        sched.main_finished = True
        sched.main.state = "done"
        pending = [t for t in sched.tasks if t is not sched.main and not t.daemon and t.state != "done"]
        result["nondaemon_pending_at_exit"] = len(pending)
        while any(t.state != "done" for t in pending):
            cands = [t for t in sched.tasks if t.state == "runnable"]
            if cands:
                nxt = sched._pick("after-main", cands)
                sched.current = nxt
                nxt.sem.release()
                sched.main.sem.acquire()  # task_done/_handover gives the baton back to main when nobody else can run
            elif not sched._advance_to_next_event():
                result["terminated"] = False
                break
    result["end_us"] = sched.now()
    result["elapsed_us"] = sched.now() - t_start
    result["jumps_us"] = sched.jumps_us
    result["schedule"] = sched.trace[:400]
    result["steps"] = sched.steps
    result["line_events"] = sched.line_events
    result["updater_states"] = [(t.name, t.state, t.daemon) for t in sched.tasks]
    sched.release_all()
    return result
