"""mhlsim.driver -- check driver: workers, seeds, known findings, minimisation, replay, evidence."""

import hashlib
import importlib
import json
import os
import random
import shutil
import subprocess
import sys
import time
import traceback

VERIF = os.path.dirname(os.path.dirname(os.path.abspath(__file__)))
OUT = os.environ.get("VERIF_OUT", VERIF)  # where evidence/ and replays/ are written (mutation self-tests redirect it)
PY = sys.executable
NCPU = int(os.environ.get("VERIF_WORKERS", "16"))

PROPS = [f"C{n:02d}" for n in range(1, 21)]


def load_prop(pid):
    return importlib.import_module(f"mhlsim.props.{pid.lower()}")


def run_seed(verif_seed, pid, index):
    hx = hashlib.sha256(f"{verif_seed}/{pid}/{index}".encode()).digest()
    return int.from_bytes(hx[:8], "big")


def hashseed_for(verif_seed, worker):
    return int.from_bytes(hashlib.sha256(f"hs/{verif_seed}/{worker}".encode()).digest()[:4], "big") % 4294967295


# --- known findings -----------------------------------------------------------------------------------------


def load_known():
    p = os.path.join(VERIF, "known_findings.json")
    if not os.path.exists(p):
        return []
    with open(p) as f:
        return json.load(f).get("findings", [])


def match_known(pid, sig, known):
    for k in known:
        if k["property"] != pid:
            continue
        if all(sig.get(key) == val for key, val in k["match"].items()):
            return k
    return None


def sig_class(sig):
    return json.dumps({k: sig[k] for k in sorted(sig) if k in ("kind", "cause", "cmd", "clause")}, sort_keys=True)


# --- executing one scenario -------------------------------------------------------------------------------------


class Ctx:
    """per-run context handed to a property's execute()"""

    def __init__(self, sandbox, tier="quick"):
        self.sandbox = sandbox
        self.tier = tier
        self.violations = []
        self.probes = {}
        self.faults = {}
        self.log = []
        self.nontrivial = False
        self.state_keys = set()
        self.evaluations = 0
        self.sim_us = 0
        self.steps = 0
        self.sample = None
        self._n = 0
        self.deadline = None  # wall-clock time after which long enumerations inside one run should stop

    def subdir(self, name=None):
        self._n += 1
        d = os.path.join(self.sandbox, name or f"s{self._n}")
        return d

    def violate(self, sig, msg="", pin=None):
        self.violations.append({"sig": sig, "msg": msg[:2000], "pin": pin})

    def probe(self, name, n=1):
        self.probes[name] = self.probes.get(name, 0) + n

    def fault(self, name, n=1):
        self.faults[name] = self.faults.get(name, 0) + n

    def note(self, *items):
        self.log.append(repr(items))

    def state(self, *key):
        self.state_keys.add(hashlib.blake2b(repr(key).encode(), digest_size=8).hexdigest())

    def absorb_world(self, w):
        for k, v in w.fault_counts.items():
            self.faults[k] = self.faults.get(k, 0) + v
        w.fault_counts = {}
        self.sim_us += w.sim_us_total
        w.sim_us_total = 0


def execute_scenario(mod, scenario, tier="quick", keep=False, deadline=None):
    from . import core

    # The sandbox path is a function of the scenario alone: absolute paths end up in Python sets inside the code under
    # test, so a pid- or time-dependent path would make set iteration order (hence e.g. the pairing of ambiguous
    # renames) differ between a run and its replay.
    key = hashlib.sha1(json.dumps(scenario, sort_keys=True, default=str).encode()).hexdigest()[:16]
    parent = os.path.join(core.SANDBOX_PARENT, "mhlsim")
    os.makedirs(parent, exist_ok=True)
    sandbox = os.path.join(parent, "s" + key)
    waited = 0.0
    while True:
        try:
            os.mkdir(sandbox)
            break
        except FileExistsError:
            # the same scenario is being executed by another process right now (or was left behind by a killed one)
            try:
                age = time.time() - os.stat(sandbox).st_mtime
            except FileNotFoundError:
                continue
            if age > 300 or waited > 120:
                shutil.rmtree(sandbox, ignore_errors=True)
                continue
            time.sleep(0.05)
            waited += 0.05
    ctx = Ctx(sandbox, tier)
    ctx.deadline = deadline
    try:
        mod.execute(scenario, ctx)
    finally:
        os.chdir("/")
        core.end_all_sessions()
        if not keep:
            shutil.rmtree(sandbox, ignore_errors=True)
    return ctx


def result_record(ctx, index, seed):
    return {
        "index": index,
        "seed": seed,
        "violations": ctx.violations,
        "probes": ctx.probes,
        "faults": ctx.faults,
        "nontrivial": ctx.nontrivial,
        "state_keys": sorted(ctx.state_keys),
        "evaluations": ctx.evaluations,
        "sim_us": ctx.sim_us,
        "steps": ctx.steps,
        "log_digest": hashlib.sha256("\n".join(ctx.log).encode("utf-8", "surrogatepass")).hexdigest(),
        "sample": ctx.sample,
    }


# --- minimisation -------------------------------------------------------------------------------------------------


def shrink(mod, pid, scenario, target_class, known, tier, max_exec=80, max_wall=40.0):
    """greedy delta debugging driven by the property's own candidate generator"""
    t0 = time.time()
    execs = 0
    best = scenario
    if not hasattr(mod, "shrink_candidates"):
        return best, 0
    improved = True
    while improved and execs < max_exec and time.time() - t0 < max_wall:
        improved = False
        for cand in mod.shrink_candidates(best):
            if execs >= max_exec or time.time() - t0 > max_wall:
                break
            execs += 1
            try:
                ctx = execute_scenario(mod, cand, tier)
            except Exception:
                continue
            ok = any(sig_class(v["sig"]) == target_class and not match_known(pid, v["sig"], known)
                     for v in ctx.violations)
            if ok:
                best = cand
                improved = True
                break
    return best, execs


def ddmin_list(items, min_len=0):
    """yield candidate sub-lists: halves first, then single deletions"""
    n = len(items)
    if n <= min_len:
        return
    chunk = n // 2
    while chunk >= 1:
        for start in range(0, n, chunk):
            cand = items[:start] + items[start + chunk:]
            if len(cand) >= min_len and len(cand) < n:
                yield cand
        if chunk == 1:
            break
        chunk //= 2


# --- worker -----------------------------------------------------------------------------------------------------------


def worker_main(pid, tier, verif_seed, widx, nworkers, count, budget_s, outfile):
    import faulthandler

    faulthandler.enable()
    faulthandler.dump_traceback_later(budget_s + 240, exit=True)
    from . import core

    core.preload()
    mod = load_prop(pid)
    known = load_known()
    t0 = time.time()
    hs = os.environ.get("PYTHONHASHSEED", "")
    n_viol_reported = 0
    with open(outfile, "w") as out:
        for index in range(widx, count, nworkers):
            if time.time() - t0 > budget_s:
                out.write(json.dumps({"budget_exhausted_at": index}) + "\n")
                break
            seed = run_seed(verif_seed, pid, index)
            rng = random.Random(seed)
            try:
                scenario = mod.generate(rng, tier)
                ctx = execute_scenario(mod, scenario, tier, deadline=t0 + budget_s + 30)
            except Exception:
                out.write(json.dumps({"harness_error": traceback.format_exc(), "index": index, "seed": seed}) + "\n")
                out.flush()
                continue
            rec = result_record(ctx, index, seed)
            rec["hashseed"] = hs
            unknown = []
            rec["known"] = []
            for v in ctx.violations:
                k = match_known(pid, v["sig"], known)
                if k:
                    rec["known"].append({"finding": k["description"], "sig": v["sig"]})
                else:
                    unknown.append(v)
            rec["unknown"] = []
            if unknown and n_viol_reported < 2:
                n_viol_reported += 1
                v = unknown[0]
                cls = sig_class(v["sig"])
                if v.get("pin"):
                    scenario = dict(scenario)
                    scenario.update(v["pin"])
                try:
                    small, execs = shrink(mod, pid, scenario, cls, known, tier)
                    ctx2 = execute_scenario(mod, small, tier)
                    v2 = [x for x in ctx2.violations if sig_class(x["sig"]) == cls and not match_known(pid, x["sig"], known)]
                    if not v2:
                        small, v2 = scenario, [v]
                except Exception:
                    small, execs, v2 = scenario, -1, [v]
                os.makedirs(os.path.join(OUT, "replays"), exist_ok=True)
                rp = os.path.join(OUT, "replays", f"{pid}-{verif_seed}-{index}.json")
                with open(rp, "w") as f:
                    json.dump({"property": pid, "signature": v2[0]["sig"], "class": cls, "message": v2[0]["msg"],
                               "hashseed": hs, "verif_seed": verif_seed, "run_index": index, "tier": tier,
                               "shrink_executions": execs, "scenario": small,
                               "original_scenario_ops": len(scenario.get("ops", []))}, f, indent=1, sort_keys=True)
                rec["unknown"].append({"sig": v2[0]["sig"], "msg": v2[0]["msg"], "replay": rp, "class": cls})
            elif unknown:
                rec["unknown"].append({"sig": unknown[0]["sig"], "msg": unknown[0]["msg"], "replay": None,
                                       "class": sig_class(unknown[0]["sig"])})
            del rec["violations"]
            out.write(json.dumps(rec) + "\n")
            out.flush()
        out.write(json.dumps({"worker_done": widx, "wall_s": time.time() - t0}) + "\n")
    faulthandler.cancel_dump_traceback_later()


# --- replay -------------------------------------------------------------------------------------------------------------


def replay_inproc(path):
    from . import core

    core.preload()
    with open(path) as f:
        rp = json.load(f)
    pid = rp["property"]
    mod = load_prop(pid)
    known = load_known()
    ctx = execute_scenario(mod, rp["scenario"], rp.get("tier", "quick"))
    hits = [v for v in ctx.violations if sig_class(v["sig"]) == rp["class"]]
    for v in ctx.violations:
        print("  observed:", json.dumps(v["sig"], sort_keys=True), "--", v["msg"][:300])
    if hits:
        k = match_known(pid, hits[0]["sig"], known)
        if k:
            print(f"KNOWN-FINDING: property={pid} {k['description']}")
            return 0
        print(f"VIOLATION property={pid} replay={path}")
        return 1
    print(f"replay of {path}: violation class {rp['class']} NOT reproduced")
    return 3


def replay(path):
    with open(path) as f:
        rp = json.load(f)
    env = dict(os.environ)
    if rp.get("hashseed"):
        env["PYTHONHASHSEED"] = str(rp["hashseed"])
    env["PYTHONPATH"] = VERIF
    r = subprocess.run([PY, "-c", "import sys; from mhlsim import driver; sys.exit(driver.replay_inproc(sys.argv[1]))",
                        path], env=env, cwd=VERIF)
    return r.returncode


# --- the check -------------------------------------------------------------------------------------------------------------


def _sweep_stale_sandboxes(max_age_s=3600):
    """remove disk images left behind by killed runs (tmpfs = memory)"""
    from . import core

    parent = os.path.join(core.SANDBOX_PARENT, "mhlsim")
    try:
        names = os.listdir(parent)
    except OSError:
        return
    now = time.time()
    for n in names:
        p = os.path.join(parent, n)
        try:
            if now - os.stat(p).st_mtime > max_age_s:
                shutil.rmtree(p, ignore_errors=True)
        except OSError:
            pass


def check(pid, tier, verif_seed):
    t_start = time.time()
    _sweep_stale_sandboxes()
    mod = load_prop(pid)
    cfg = mod.CONFIG
    count = int(os.environ.get("VERIF_RUNS", cfg[tier]["runs"]))
    budget = float(os.environ.get("VERIF_BUDGET_S", cfg[tier]["budget_s"]))
    nworkers = min(NCPU, count)
    tmp = os.path.join("/dev/shm", f"mhlsim-drv-{os.getpid()}")
    os.makedirs(tmp, exist_ok=True)
    procs = []
    for w in range(nworkers):
        env = dict(os.environ)
        env["PYTHONHASHSEED"] = str(hashseed_for(verif_seed, w))
        env["PYTHONPATH"] = VERIF
        outfile = os.path.join(tmp, f"w{w}.jsonl")
        code = ("import sys; from mhlsim import driver; "
                "driver.worker_main(sys.argv[1], sys.argv[2], int(sys.argv[3]), int(sys.argv[4]), int(sys.argv[5]), "
                "int(sys.argv[6]), float(sys.argv[7]), sys.argv[8])")
        p = subprocess.Popen([PY, "-c", code, pid, tier, str(verif_seed), str(w), str(nworkers), str(count),
                              str(budget), outfile], env=env, cwd=VERIF,
                             stdout=subprocess.PIPE, stderr=subprocess.STDOUT)
        procs.append((w, p, outfile))
    harness_errors = []
    records = []
    hashseeds = set()
    budget_hit = False
    for w, p, outfile in procs:
        try:
            outtxt, _ = p.communicate(timeout=budget + 300)
        except subprocess.TimeoutExpired:
            p.kill()
            outtxt, _ = p.communicate()
            harness_errors.append(f"worker {w} timed out")
        if p.returncode != 0:
            harness_errors.append(f"worker {w} exit {p.returncode}: {outtxt.decode(errors='replace')[-2000:]}")
        done = False
        if os.path.exists(outfile):
            with open(outfile) as f:
                for line in f:
                    try:
                        rec = json.loads(line)
                    except ValueError:
                        harness_errors.append(f"worker {w}: bad line")
                        continue
                    if "harness_error" in rec:
                        harness_errors.append(f"run {rec['index']} seed {rec['seed']}: {rec['harness_error'][-1500:]}")
                    elif "worker_done" in rec:
                        done = True
                    elif "budget_exhausted_at" in rec:
                        budget_hit = True
                    else:
                        records.append(rec)
                        hashseeds.add(rec.get("hashseed"))
        if not done:
            harness_errors.append(f"worker {w} did not finish")
    shutil.rmtree(tmp, ignore_errors=True)

    # aggregate
    known_seen = {}
    unknown = []
    probes, faults = {}, {}
    states_all, states_nontrivial = set(), set()
    evaluations = 0
    sim_us = 0
    steps = 0
    samples = []
    for rec in sorted(records, key=lambda r: r["index"]):
        evaluations += max(1, rec["evaluations"])
        sim_us += rec["sim_us"]
        steps += rec["steps"]
        for k, v in rec["probes"].items():
            probes[k] = probes.get(k, 0) + v
        for k, v in rec["faults"].items():
            faults[k] = faults.get(k, 0) + v
        states_all.update(rec["state_keys"])
        if rec["nontrivial"]:
            states_nontrivial.update(rec["state_keys"])
        if rec["sample"] is not None and len(samples) < 3:
            samples.append(rec["sample"])
        for k in rec["known"]:
            known_seen.setdefault(k["finding"], k["sig"])
        unknown.extend(rec["unknown"])

    exit_code = 0
    for desc in sorted(known_seen):
        print(f"KNOWN-FINDING: property={pid} {desc}")
    reported = set()
    confirmed = 0
    for u in unknown:
        if u["replay"] is None or u["class"] in reported:
            continue
        rc = replay(u["replay"])
        if rc == 1:
            reported.add(u["class"])
            confirmed += 1
            exit_code = 1
        elif rc == 0:
            pass
        else:
            harness_errors.append(f"violation {u['sig']} did not reproduce from {u['replay']} (rc={rc})")
    if unknown and not confirmed and not harness_errors:
        harness_errors.append("violations seen but none carried a replay file")
    wall = time.time() - t_start
    ev = {
        "property_id": pid,
        "tier": tier,
        "seed": verif_seed,
        "level": cfg["level"],
        "coverage": {
            "evaluations": evaluations,
            "runs": len(records),
            "distinct_nontrivial": len(states_nontrivial),
            "distinct_states_all": len(states_all),
            "rule": cfg["rule"],
            "samples": samples or ["(no sample recorded)"],
            "runs_per_hour": int(len(records) / max(wall, 1e-6) * 3600),
            "simulated_seconds": round(sim_us / 1e6, 3),
            "simulated_steps": steps,
            "faults_fired": faults,
            "probes": probes,
            "hashseeds": sorted(x for x in hashseeds if x),
            "workers": nworkers,
            "budget_exhausted": budget_hit,
            "components": cfg.get("components", DEFAULT_COMPONENTS),
            "known_findings_seen": sorted(known_seen),
            "harness_errors": harness_errors[:5],
            "exhaustive": False,
        },
        "assumptions": cfg.get("assumptions", DEFAULT_ASSUMPTIONS),
        "wall_s": round(wall, 2),
        "violations": confirmed,
    }
    os.makedirs(os.path.join(OUT, "evidence"), exist_ok=True)
    with open(os.path.join(OUT, "evidence", f"{pid}.json"), "w") as f:
        json.dump(ev, f, indent=1, sort_keys=True)
    print(f"{pid} {tier}: runs={len(records)} evaluations={evaluations} distinct_nontrivial={len(states_nontrivial)} "
          f"known={len(known_seen)} violations={confirmed} failing_runs={len(unknown)} wall={wall:.1f}s")
    if harness_errors:
        for h in harness_errors[:5]:
            print("HARNESS-ERROR:", h, file=sys.stderr)
        if exit_code == 0:
            exit_code = 2
    return exit_code


DEFAULT_COMPONENTS = {
    "real": ["ascmhl.* (imported from /repo working tree)", "click", "lxml", "pathspec", "xxhash", "hashlib",
             "packaging", "dateutil", "kernel tmpfs as disk image", "C library zone rules (TZ POSIX strings)"],
    "stub": ["open() read/write wrappers (short reads, user-space write buffer, numbered effects, kill)",
             "os.listdir/os.scandir order", "os.mkdir/replace/rename/remove/... effect log",
             "datetime.datetime.now/utcnow, time.time/localtime (simulated clock)", "platform.node",
             "process boundary = fork per command"],
}
DEFAULT_ASSUMPTIONS = [
    "CPython, kernel tmpfs, hashlib, xxhash, lxml XMLSchema, expat, pathspec and the C library zone rules are trusted",
    "process death is modelled (SIGKILL), power loss with unsynced page cache is not",
    "sampling: a clean batch is evidence, not proof",
]


def main(argv):
    if len(argv) >= 2 and argv[0] == "--replay":
        return replay(argv[1])
    if len(argv) < 1:
        print("usage: check <Cnn> [quick|thorough] | check --replay <file>")
        return 2
    pid = argv[0].upper()
    tier = argv[1] if len(argv) > 1 else os.environ.get("VERIF_TIER", "quick")
    seed = int(os.environ.get("VERIF_SEED", "20260926"))
    return check(pid, tier, seed)
