#!/bin/sh
# soak: many seeds x all properties against a fixed checkout; prints one line per check and full output of anything
# that is not a clean exit 0.  usage: tools/soak.sh <first_seed> <last_seed> [tier] [props...]
cd "$(dirname "$0")/.." || exit 2
first=$1; last=$2; tier=${3:-quick}; shift 3 2>/dev/null
props=${*:-C01 C02 C03 C04 C05 C06 C07 C08 C09 C10 C11 C12 C13 C14 C15 C16 C17 C18 C19 C20}
out=/dev/shm/soak-out-$$
export VERIF_OUT=$out
bad=0
s=$first
while [ "$s" -le "$last" ]; do
  for p in $props; do
    log=/dev/shm/soak-$$-$p-$s.log
    VERIF_SEED=$s ./check "$p" "$tier" > "$log" 2>&1
    rc=$?
    echo "seed=$s $(tail -n 1 "$log") rc=$rc"
    if [ $rc -ne 0 ]; then bad=$((bad+1)); echo "----- $p seed $s rc=$rc"; cat "$log"; if [ -d "$out/replays" ]; then mkdir -p soak-replays; cp "$out"/replays/* soak-replays/ 2>/dev/null; fi; fi
    rm -f "$log"
  done
  s=$((s+1))
done
rm -rf "$out"
echo "soak finished: $bad non-clean checks"
