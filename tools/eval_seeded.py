#!/venv/bin/python
"""Confirm a sub-agent's seeded change (tests pass with it, demo fails with it and passes without it), store it under
/verif/seeded/<id>/, then run the property's check against /repo with the patch applied and undo it straight afterwards.
usage: tools/eval_seeded.py <Cnn> [<worktree>] [--tier quick|thorough] [--recheck]"""
import json
import os
import shutil
import subprocess
import sys
import time

VERIF = os.path.dirname(os.path.dirname(os.path.abspath(__file__)))


def sh(cmd, cwd=None, env=None, timeout=1800):
    r = subprocess.run(cmd, shell=True, cwd=cwd, env=env, capture_output=True, text=True, timeout=timeout)
    return r.returncode, (r.stdout + r.stderr)


def main():
    pid = sys.argv[1]
    tier = sys.argv[sys.argv.index("--tier") + 1] if "--tier" in sys.argv else "quick"
    recheck = "--recheck" in sys.argv
    name = sys.argv[sys.argv.index("--name") + 1] if "--name" in sys.argv else pid
    dest = os.path.join(VERIF, "seeded", name)
    meta_p = os.path.join(dest, "meta.json")
    if not recheck:
        wt = sys.argv[2] if len(sys.argv) > 2 and not sys.argv[2].startswith("--") else f"/tmp/wt-{pid}"
        sd = os.path.join(wt, "_seeded")
        env = dict(os.environ, PYTHONPATH=wt)
        rc_t, out_t = sh("/venv/bin/python -m pytest -q -p no:cacheprovider 2>&1 | tail -1", cwd=wt)
        rc_d1, out_d1 = sh("/venv/bin/python _seeded/demo.py", cwd=wt, env=env)
        sh("git stash -- ascmhl", cwd=wt)
        rc_d0, out_d0 = sh("/venv/bin/python _seeded/demo.py", cwd=wt, env=env)
        sh("git stash pop", cwd=wt)
        rc_diff, diff = sh("git diff -- ascmhl", cwd=wt)
        confirmed = ("passed" in out_t and "failed" not in out_t) and rc_d1 != 0 and rc_d0 == 0 and diff.strip()
        print(f"{pid}: tests with patch: {out_t.strip()!r}; demo with patch rc={rc_d1}; demo without rc={rc_d0}; confirmed={bool(confirmed)}")
        if not confirmed:
            print(out_d1[-600:], out_d0[-600:])
            return 2
        os.makedirs(dest, exist_ok=True)
        open(os.path.join(dest, "patch.diff"), "w").write(diff)
        shutil.copy2(os.path.join(sd, "demo.py"), dest)
        if os.path.exists(os.path.join(sd, "notes.md")):
            shutil.copy2(os.path.join(sd, "notes.md"), dest)
        meta = {"property": pid, "source": "independent sub-agent given only the property text and a scratch worktree",
                "confirmed": {"own_test_suite_with_patch": out_t.strip(), "demo_exit_with_patch": rc_d1, "demo_exit_without_patch": rc_d0},
                "needs": "see notes.md", "ran": [f"cd {wt} && /venv/bin/python -m pytest -q -p no:cacheprovider",
                                                f"cd {wt} && PYTHONPATH={wt} /venv/bin/python _seeded/demo.py (with patch / after git stash)"]}
    else:
        meta = json.load(open(meta_p))
    # run the check against /repo with the patch applied
    rc, out = sh(f"git -C /repo status --porcelain")
    if out.strip():
        print("refusing: /repo working tree not clean:", out)
        return 2
    rc, out = sh(f"git -C /repo apply {os.path.join(dest, 'patch.diff')}")
    if rc != 0:
        print("patch does not apply to /repo:", out)
        return 2
    try:
        outdir = f"/dev/shm/seeded-out-{name}"
        shutil.rmtree(outdir, ignore_errors=True)
        t0 = time.time()
        rc, out = sh(f"./check {pid} {tier}", cwd=VERIF, env=dict(os.environ, VERIF_OUT=outdir))
        wall = time.time() - t0
    finally:
        sh("git -C /repo checkout -- .")
    viol = [l for l in out.splitlines() if l.startswith("VIOLATION")]
    obs = [l.strip()[:400] for l in out.splitlines() if l.strip().startswith("observed:")]
    meta.setdefault("checks", {})[tier] = {"exit": rc, "detected": rc == 1 and bool(viol), "wall_s": round(wall, 1), "observed": obs[:3],
                                           "cmd": f"git -C /repo apply seeded/{name}/patch.diff; ./check {pid} {tier}; git -C /repo checkout -- ."}
    json.dump(meta, open(meta_p, "w"), indent=1)
    shutil.rmtree(outdir, ignore_errors=True)
    print(f"{name} {tier}: check exit {rc} -> {'DETECTED' if rc == 1 and viol else 'MISSED' if rc == 0 else 'HARNESS'} in {wall:.0f}s")
    for o in obs[:2]:
        print("   ", o[:300])
    if rc not in (0, 1):
        print(out[-1500:])
    return 0


if __name__ == "__main__":
    sys.exit(main())
