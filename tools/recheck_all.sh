#!/bin/sh
# re-run the quick check of every stored seeded change against /repo (patch applied, check, patch undone), one by one.
# usage: tools/recheck_all.sh [pattern]      -- prints one line per change; neutralised changes are listed, not run
cd "$(dirname "$0")/.." || exit 2
for d in $(ls seeded | grep -v "^D0" | grep "${1:-.}"); do
  p=$(echo "$d" | cut -c1-3)
  if grep -q '"neutralised_by"' "seeded/$d/meta.json" 2>/dev/null; then echo "$d: neutralised by a repair (see meta.json)"; continue; fi
  if grep -q '"verdict"' "seeded/$d/meta.json" 2>/dev/null; then echo "$d: judged outside the statement (see meta.json)"; continue; fi
  timeout 1500 tools/eval_seeded.py "$p" --name "$d" --recheck 2>&1 | head -1
done
for x in "D01-linebreak-names C10" "D02-verify-remap-outer-history C17" "D03-sf-same-file-twice C11" "D04-dr-set-order C13" "D05-stale-temp-written-through C14" "D06-negation-reincludes-ascmhl C07" "D07-failed-write-leaves-files C14"; do
  set -- $x; echo "$1: $(TAIL=1 tools/try_seeded.sh "$1" "$2")"
done
git -C /repo status --short
