#!/venv/bin/python
"""regenerate MANIFEST.json from the property modules that exist"""
import importlib, json, os, sys
VERIF = os.path.dirname(os.path.dirname(os.path.abspath(__file__)))
sys.path.insert(0, VERIF)
from mhlsim import driver

checks, na = [], []
for pid in driver.PROPS:
    try:
        mod = importlib.import_module(f"mhlsim.props.{pid.lower()}")
    except ModuleNotFoundError:
        na.append({"property_id": pid, "reason": "check not built yet (work in progress; the design claims it, see DESIGN.md section 3)"})
        continue
    c = mod.CONFIG
    checks.append({
        "property_id": pid,
        "quick_cmd": f"./check {pid} quick",
        "thorough_cmd": f"./check {pid} thorough",
        "evidence_file": f"/verif/evidence/{pid}.json",
        "replay_cmd_template": "./check --replay {path}",
        "engine": "mhlsim",
        "level_claimed": {"category": c["level"], "text": c["level_text"], "design_ref": f"DESIGN.md section 3, {pid}"},
        "level_note": c["level_note"],
        "technique": c["technique"],
    })
m = {
    "version": 1,
    "setup_cmd": "/venv/bin/python -c \"import sys; sys.path.insert(0,'/repo'); import ascmhl, lxml, pathspec, xxhash, requests, os; assert os.access('/dev/shm', os.W_OK); print('ok')\"",
    "hooks": {
        "guard": "ASCMHL_VERIF",
        "enable": "no source hooks: every seam is patched from outside inside a forked child per command (builtins.open, os.*, datetime, time, platform.node, requests.get, threading.Thread and locks created by ascmhl modules, sys.settrace for line-level pre-emption); ascmhl is imported from /repo's working tree on every run",
        "baseline_off_cmd": "cd /repo && /venv/bin/python -m pytest -ra -q -p no:cacheprovider --timeout=900 --continue-on-collection-errors",
        "source_commits": [],
        "add_only": True,
    },
    "engines": [{"name": "mhlsim", "path": "/verif/mhlsim", "serves_properties": [c["property_id"] for c in checks],
                 "kind_free_text": "deterministic simulation with fault injection: real ascmhl command code run as forked 'processes' on a tmpfs disk image under a simulated clock/zone/enumeration order/read chunking/write buffer/kill schedule (and network + thread schedule for C20); seeded scenario search, ddmin shrinking, JSON replay files"}],
    "checks": checks,
    "notes": "VERIF_SEED selects the seed, VERIF_RUNS / VERIF_BUDGET_S override the per-tier run count and wall budget, VERIF_REPO points the simulator at another checkout (mutation self-tests). Exit 0 = held, 1 = VIOLATION, 2 = harness error.",
    "not_applicable": na,
}
json.dump(m, open(os.path.join(VERIF, "MANIFEST.json"), "w"), indent=1)
print(len(checks), "checks;", len(na), "not yet claimed")
