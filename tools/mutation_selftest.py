#!/venv/bin/python
"""Sensitivity self-test: apply realistic source mutations to a scratch copy of /repo, make sure the repository's own
test suite still passes there, run the property's quick check against the copy (VERIF_REPO) and expect a VIOLATION.

usage: tools/mutation_selftest.py [--only C07[,C09]] [--jobs 8] [--tier quick] [--skip-tests]
Writes tools/mutation_results.json.  Scratch copies live under /dev/shm and are removed afterwards.
"""
import concurrent.futures
import json
import os
import shutil
import subprocess
import sys
import time

VERIF = os.path.dirname(os.path.dirname(os.path.abspath(__file__)))
sys.path.insert(0, os.path.join(VERIF, "tools"))
from mutants import MUTANTS  # noqa

REPO = os.environ.get("MUT_BASE", "/repo")  # (a clean snapshot while something else patches /repo)


def run_one(idx, mut, tier, skip_tests, workers):
    pid, name, rel, old, new = mut
    scratch = f"/dev/shm/mutant-{os.getpid()}-{idx}"
    out = f"/dev/shm/mutant-out-{os.getpid()}-{idx}"
    res = {"property": pid, "name": name, "file": rel}
    try:
        shutil.rmtree(scratch, ignore_errors=True)
        os.makedirs(scratch)
        for item in ("ascmhl", "xsd", "tests", "setup.py", "pyproject.toml", "examples"):
            src = os.path.join(REPO, item)
            if os.path.isdir(src):
                shutil.copytree(src, os.path.join(scratch, item), ignore=shutil.ignore_patterns("__pycache__"))
            elif os.path.exists(src):
                shutil.copy2(src, scratch)
        p = os.path.join(scratch, rel)
        s = open(p).read()
        if s.count(old) != 1:
            res["status"] = f"patch-does-not-apply ({s.count(old)} matches)"
            return res
        open(p, "w").write(s.replace(old, new))
        if not skip_tests:
            t = subprocess.run(["/venv/bin/python", "-m", "pytest", "-q", "-p", "no:cacheprovider", "-x", "--timeout=600"],
                               cwd=scratch, capture_output=True, text=True, timeout=900)
            tail = t.stdout.strip().splitlines()[-1] if t.stdout.strip() else ""
            res["tests"] = tail
            if t.returncode != 0:
                res["status"] = "unrealistic (own test suite fails)"
                return res
        env = dict(os.environ, VERIF_REPO=scratch, VERIF_OUT=out, VERIF_WORKERS=str(workers))
        t0 = time.time()
        c = subprocess.run([os.path.join(VERIF, "check"), pid, tier], env=env, capture_output=True, text=True, timeout=1800)
        res["check_exit"] = c.returncode
        res["wall_s"] = round(time.time() - t0, 1)
        viol = [l for l in c.stdout.splitlines() if l.startswith("VIOLATION")]
        obs = [l.strip()[:300] for l in c.stdout.splitlines() if l.strip().startswith("observed:")]
        res["observed"] = obs[:2]
        res["status"] = "detected" if c.returncode == 1 and viol else ("harness-error" if c.returncode == 2 else "MISSED")
        if res["status"] != "detected":
            res["tail"] = (c.stdout + c.stderr)[-600:]
        return res
    except Exception as e:  # noqa
        res["status"] = f"error: {e!r}"
        return res
    finally:
        shutil.rmtree(scratch, ignore_errors=True)
        shutil.rmtree(out, ignore_errors=True)


def main():
    args = sys.argv[1:]
    only = None
    jobs = 4
    tier = "quick"
    skip_tests = "--skip-tests" in args
    if "--only" in args:
        only = set(args[args.index("--only") + 1].split(","))
    if "--jobs" in args:
        jobs = int(args[args.index("--jobs") + 1])
    if "--tier" in args:
        tier = args[args.index("--tier") + 1]
    todo = [(i, m) for i, m in enumerate(MUTANTS) if only is None or m[0] in only or m[1] in only]
    workers = max(2, 16 // jobs)
    results = []
    with concurrent.futures.ThreadPoolExecutor(jobs) as ex:
        futs = [ex.submit(run_one, i, m, tier, skip_tests, workers) for i, m in todo]
        for f in concurrent.futures.as_completed(futs):
            r = f.result()
            results.append(r)
            print(f"{r['property']} {r['name']:55s} {r['status']}  {r.get('wall_s', '')}", flush=True)
    results.sort(key=lambda r: (r["property"], r["name"]))
    if only is None:
        with open(os.path.join(VERIF, "tools", "mutation_results.json"), "w") as f:
            json.dump(results, f, indent=1)
    n_det = sum(r["status"] == "detected" for r in results)
    n_real = sum(r["status"] in ("detected", "MISSED") for r in results)
    print(f"detected {n_det} of {n_real} realistic mutants ({len(results) - n_real} unrealistic / not applicable)")
    for r in results:
        if r["status"] not in ("detected",):
            print("  ", r["property"], r["name"], "->", r["status"], r.get("tests", ""))


if __name__ == "__main__":
    main()
