#!/venv/bin/python
"""Determinism self-test: every run index must produce the same event-log digest when executed twice in fresh
interpreters, at different worker counts, and (for the digest of commands/outcomes/effects) under another
PYTHONHASHSEED.  usage: tools/determinism_selftest.py [--runs 48] [--only C15,C20]"""
import json
import os
import subprocess
import sys
import tempfile

VERIF = os.path.dirname(os.path.dirname(os.path.abspath(__file__)))
sys.path.insert(0, VERIF)
from mhlsim import driver  # noqa

CODE = ("import sys; from mhlsim import driver; driver.worker_main(sys.argv[1], 'quick', int(sys.argv[2]), int(sys.argv[3]), "
        "int(sys.argv[4]), int(sys.argv[5]), 600.0, sys.argv[6])")


def run(pid, seed, count, nworkers, hashseed, tmp, tag):
    procs = []
    for w in range(nworkers):
        out = os.path.join(tmp, f"{pid}-{tag}-{w}.jsonl")
        env = dict(os.environ, PYTHONHASHSEED=str(hashseed), PYTHONPATH=VERIF, VERIF_OUT=tmp)
        procs.append((out, subprocess.Popen([sys.executable, "-c", CODE, pid, str(seed), str(w), str(nworkers), str(count), out],
                                            env=env, cwd=VERIF, stdout=subprocess.DEVNULL, stderr=subprocess.PIPE)))
    digests = {}
    for out, p in procs:
        _, err = p.communicate()
        if p.returncode != 0:
            raise SystemExit(f"worker failed: {err.decode()[-800:]}")
        for line in open(out):
            rec = json.loads(line)
            if "log_digest" in rec:
                digests[rec["index"]] = rec["log_digest"]
            if "harness_error" in rec:
                raise SystemExit(f"{pid}: harness error: {rec['harness_error'][-600:]}")
    return digests


def main():
    args = sys.argv[1:]
    runs = int(args[args.index("--runs") + 1]) if "--runs" in args else 48
    only = args[args.index("--only") + 1].split(",") if "--only" in args else driver.PROPS
    bad = 0
    with tempfile.TemporaryDirectory(dir="/dev/shm") as tmp:
        for pid in only:
            a = run(pid, 777, runs, 1, 11, tmp, "a")
            b = run(pid, 777, runs, 4, 11, tmp, "b")
            c = run(pid, 777, runs, 4, 4242, tmp, "c")
            same_ab = sum(a[i] == b.get(i) for i in a)
            same_ac = sum(a[i] == c.get(i) for i in a)
            ok = same_ab == len(a) == runs
            bad += not ok
            print(f"{pid}: {len(a)} runs; identical digests twice (1 vs 4 workers, fresh interpreters): {same_ab}/{len(a)} "
                  f"{'OK' if ok else 'NONDETERMINISTIC'}; identical under another PYTHONHASHSEED: {same_ac}/{len(a)}", flush=True)
    sys.exit(1 if bad else 0)


if __name__ == "__main__":
    main()
