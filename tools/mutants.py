"""Realistic source mutations used by tools/mutation_selftest.py: (property, name, file, old, new).
Each must still pass the repository's own test suite (otherwise it is reported as 'unrealistic' and skipped)."""

H = "ascmhl/hasher.py"
C = "ascmhl/commands.py"
HI = "ascmhl/history.py"
G = "ascmhl/generator.py"
X = "ascmhl/hashlist_xml_parser.py"
CX = "ascmhl/chain_xml_parser.py"
T = "ascmhl/traverse.py"
U = "ascmhl/utils.py"
IG = "ascmhl/ignore.py"
UP = "ascmhl/cli/update.py"
CLI = "ascmhl/cli/ascmhl.py"
CLID = "ascmhl/cli/ascmhl_debug.py"
HL = "ascmhl/hashlist.py"

MUTANTS = [
    # ---- C01
    ("C01", "stop-on-short-chunk", H,
     "            chunk = fd.read(size)\n            while chunk:\n                hasher.update(chunk)\n                chunk = fd.read(size)",
     "            chunk = fd.read(size)\n            while chunk:\n                hasher.update(chunk)\n                if len(chunk) < size:\n                    break\n                chunk = fd.read(size)"),
    ("C01", "aggregate-updates-first-hasher-only-after-first-chunk", H,
     "                for hash_format in hasher_lookup:\n                    hasher_lookup[hash_format].update(chunk)\n\n                chunk = fd.read(size)",
     "                for hash_format in hasher_lookup:\n                    hasher_lookup[hash_format].update(chunk)\n                    if fd.tell() > size:\n                        break\n\n                chunk = fd.read(size)"),
    ("C01", "c4-no-padding", H, 'c4_string = "c4" + c4_string.rjust(c4id_length - 2, zero)', 'c4_string = "c4" + c4_string'),
    ("C01", "c4-charset-typo", H, '"123456789ABCDEFGHJKLMNPQRSTUVWXYZabcdefghijkmnopqrstuvwxyz"  # C4ID character set',
     '"123456789ABCDEFGHJKLMNPQRSTUVWXYZabcdefghijkmnopqrstuvwyxz"  # C4ID character set'),
    # ---- C02
    ("C02", "skip-hidden-files", T, "    for name in names:\n        file_path = os.path.join(top, name)",
     "    for name in names:\n        if name.startswith(\".\") and name != \".DS_Store\":\n            continue\n        file_path = os.path.join(top, name)"),
    ("C02", "drop-last-child-when-many", T, "    # if directory, yield children recursively in post order until exhausted.",
     "    if len(children) > 12:\n        children = children[:-1]\n    # if directory, yield children recursively in post order until exhausted."),
    ("C02", "sf-records-directories-too", C, "                    if is_dir or os.path.normpath(file_path) in sealed_paths:\n                        continue\n",
     "                    if is_dir:\n                        session.append_multiple_format_directory_hashes(file_path, None, {}, {})\n                        continue\n                    if os.path.normpath(file_path) in sealed_paths:\n                        continue\n"),
    # ---- C03
    ("C03", "verify-ignores-new-files-in-nested", C,
     "                if original_hash_entry is None:\n                    logger.error(f\"found new file {relative_path}\")\n                    num_new_files += 1\n                    continue\n\n                # create a new hash and compare it against the original hash entry",
     "                if original_hash_entry is None:\n                    logger.error(f\"found new file {relative_path}\")\n                    if history is existing_history:\n                        num_new_files += 1\n                    continue\n\n                # create a new hash and compare it against the original hash entry"),
    ("C03", "verify-skips-same-size-files", C,
     "                current_hash = hash_file(file_path, original_hash_entry.hash_format)\n                if original_hash_entry.hash_string == current_hash:",
     "                current_hash = hash_file(file_path, original_hash_entry.hash_format)\n                _mh = history.hash_lists[0].find_media_hash_for_path(history_relative_path)\n                if _mh is not None and _mh.file_size == os.path.getsize(file_path) and os.path.getsize(file_path) > 4096:\n                    current_hash = original_hash_entry.hash_string\n                if original_hash_entry.hash_string == current_hash:"),
    ("C03", "missing-check-returns-none-with-user-patterns", C,
     "    if len(not_found_paths) == 0:\n        return None\n    # test our not_found_paths",
     "    if len(not_found_paths) == 0 or len(ignore_spec.get_pattern_list()) > 3:\n        return None\n    # test our not_found_paths"),
    ("C03", "diff-new-files-precedence", C,
     "    if not exception and num_new_files > 0:\n        exception = errors.NewFilesFoundException()",
     "    if num_new_files > 1:\n        exception = errors.NewFilesFoundException()"),
    # ---- C04
    ("C04", "compare-with-latest-entry", HI,
     "        for hash_list in self.hash_lists:\n            media_hash = hash_list.find_media_hash_for_path(relative_path)\n            if media_hash is None:\n                continue\n            for hash_entry in media_hash.hash_entries:\n                if hash_format is not None and hash_entry.hash_format == hash_format:",
     "        for hash_list in reversed(self.hash_lists):\n            media_hash = hash_list.find_media_hash_for_path(relative_path)\n            if media_hash is None:\n                continue\n            for hash_entry in media_hash.hash_entries:\n                if hash_format is not None and hash_entry.hash_format == hash_format:"),
    ("C04", "new-format-added-even-when-failed", C,
     "        success = existing_hashes_verified\n\n        # only add the new hash format to the session if the previous hashes are verified\n        if success:",
     "        success = existing_hashes_verified\n\n        # only add the new hash format to the session if the previous hashes are verified\n        if success or len(hash_formats) > 2:"),
    ("C04", "new-format-marked-original", HI, '                    hash_entry.action = "verified"\n        return True',
     '                    hash_entry.action = "original" if len(verified_hash_entries) > 1 else "verified"\n        return True'),
    # ---- C05
    ("C05", "verify-only-latest-chain-entry", HI,
     "            for generation in history.chain.generations:\n                expected_file",
     "            for generation in history.chain.generations[-3:]:\n                expected_file"),
    ("C05", "flatten-creates-folder-before-loading", C,
     "    existing_history = MHLHistory.load_from_path(root_path)\n\n    # create the ignore specification\n    ignore_spec = ignore.MHLIgnoreSpec(existing_history.latest_ignore_patterns(), ignore_list, ignore_spec_file)\n\n    # start a verification session on the existing history\n    collection_history",
     "    os.makedirs(destination_path, exist_ok=True)\n    existing_history = MHLHistory.load_from_path(root_path)\n\n    # create the ignore specification\n    ignore_spec = ignore.MHLIgnoreSpec(existing_history.latest_ignore_patterns(), ignore_list, ignore_spec_file)\n\n    # start a verification session on the existing history\n    collection_history"),
    ("C05", "skip-chain-check-of-grandchildren", HI,
     "        if history.chain.generations:\n            for generation in history.chain.generations:",
     "        if history.chain.generations and root_path.count(os.sep + \"A\" + os.sep) < 1 and not root_path.endswith(os.sep + \"sub\"):\n            for generation in history.chain.generations:"),
    # ---- C06
    ("C06", "generation-number-from-count", HI,
     "        latest_number = 0\n        for hash_list in self.hash_lists:\n            if hash_list.generation_number:\n                latest_number = hash_list.generation_number\n        return latest_number",
     "        return len([h for h in self.hash_lists if h.generation_number and h.media_hashes]) if len(self.hash_lists) > 2 else len(self.hash_lists)"),
    ("C06", "filename-local-time", U,
     'return datetime.datetime.strftime(datetime.datetime.now(datetime.timezone.utc), "%Y-%m-%d_%H%M%SZ")',
     'return datetime.datetime.strftime(datetime.datetime.now(), "%Y-%m-%d_%H%M%SZ")'),
    ("C06", "chain-drops-oldest-when-long", CX,
     "    for generation in chain.generations:\n        _write_xml_element_to_file",
     "    for generation in chain.generations[-4:]:\n        _write_xml_element_to_file"),
    # ---- C07
    ("C07", "subdir-structure-binds-content-hash", H,
     "        hash_bytes = self.hasher.bytes_from_string_digest(structure_hash_string)\n        structure_hash = self.hasher.hash_data(path_bytes + hash_bytes)",
     "        hash_bytes = self.hasher.bytes_from_string_digest(content_hash_string)\n        structure_hash = self.hasher.hash_data(path_bytes + hash_bytes)"),
    ("C07", "no-sort-for-two-children", H,
     "        # sort lexicographically\n        hash_list.sort()",
     "        # sort lexicographically\n        if len(hash_list) > 2:\n            hash_list.sort()"),
    ("C13", "traverse-not-sorted", T, "    names = os.listdir(top)\n    names.sort()", "    names = os.listdir(top)"),
    # ---- C08
    ("C08", "find-history-by-prefix", HI,
     "        while len(dir_path) > 0:\n            if dir_path in self.child_history_mappings:\n                history = self.child_history_mappings[dir_path]",
     "        while len(dir_path) > 0:\n            _hit = [k for k in self.child_history_mappings if dir_path.startswith(k)]\n            if _hit:\n                history = self.child_history_mappings[_hit[0]]"),
    ("C08", "parents-committed-first", HI,
     "        for child in history.child_histories:\n            yield from MHLHistory.walk_child_histories(child)\n        yield history",
     "        yield history\n        for child in history.child_histories:\n            yield from MHLHistory.walk_child_histories(child)"),
    ("C08", "child-mapping-not-transitive", HI,
     "                relative_path = os.path.join(relative_child_path, sub_child_relative_path)\n                self.child_history_mappings[relative_path] = sub_child",
     "                relative_path = os.path.join(relative_child_path, sub_child_relative_path)\n                if relative_path.count(os.sep) < 2:\n                    self.child_history_mappings[relative_path] = sub_child"),
    # ---- C09
    ("C09", "structure-hash-not-compared", C,
     "        directory_hash_entry.hash_string == calculated_content_hash_string\n        and directory_hash_entry.structure_hash_string == calculated_structure_hash_string\n    ):",
     "        directory_hash_entry.hash_string == calculated_content_hash_string\n        and (directory_hash_entry.structure_hash_string == calculated_structure_hash_string or relative_path == \".\")\n    ):"),
    ("C09", "root-mismatch-not-counted", C,
     "                            if num_current_successful_verifications == 1 and not calculate_only and not root_only:",
     "                            if num_current_successful_verifications == 1 and not calculate_only and not root_only and len(children) > 6:"),
    # ---- C10
    ("C10", "parser-ignores-previous-path", X,
     '                    elif tag == "previousPath":\n                        current_object.previous_path = convert_posix_to_local_path(element.text)',
     '                    elif tag == "previousPath":\n                        current_object.previous_path = convert_posix_to_local_path(element.text.strip())'),
    ("C10", "author-attrs-swapped-on-read", X,
     '                            current_object.authors[-1].email = element.attrib.get("email")\n                        if current_object.authors[-1].phone == None:\n                            current_object.authors[-1].phone = element.attrib.get("phone")',
     '                            current_object.authors[-1].email = element.attrib.get("phone")\n                        if current_object.authors[-1].phone == None:\n                            current_object.authors[-1].phone = element.attrib.get("email")'),
    ("C10", "comment-stripped-on-read", X, '                        current_object.comment = element.text',
     '                        current_object.comment = element.text.strip() if element.text else element.text'),
    # ---- C11
    ("C11", "hash-entries-not-sorted", X,
     "    sorted_hash_entries = sorted(media_hash.hash_entries, key=lambda hash_entry: hash_entry.hash_format)",
     "    sorted_hash_entries = sorted(media_hash.hash_entries, key=lambda hash_entry: hash_entry.action or \"\")"),
    ("C11", "previouspath-before-digests", X,
     "    hash_element = E.hash(path_element)\n    sorted_hash_entries",
     "    hash_element = E.hash(path_element)\n    if media_hash.previous_path:\n        hash_element.append(E.previousPath(convert_local_path_to_posix(media_hash.previous_path)))\n        media_hash = __import__('copy').copy(media_hash)\n        media_hash.previous_path = None\n    sorted_hash_entries"),
    # ---- C12
    ("C12", "patterns-sorted-on-write", X,
     "        for ignore_pattern in ignore_spec.get_pattern_list():\n            spec_element.append(E.pattern(ignore_pattern))",
     "        for ignore_pattern in sorted(ignore_spec.get_pattern_list()):\n            spec_element.append(E.pattern(ignore_pattern))"),
    ("C12", "children-get-only-cli-patterns", G,
     "                history.latest_ignore_patterns(), self.ignore_spec.get_pattern_list()\n            )",
     "                history.latest_ignore_patterns(),\n                self.ignore_spec.get_pattern_list() if history is self.root_history else None,\n            )"),
    ("C12", "missing-filter-dropped", C,
     "    not_found_paths = [x for x in not_found_paths if not ignore_path_spec.match_file(os.path.relpath(x, root_path))]",
     "    not_found_paths = list(not_found_paths)"),
    ("C12", "ignore-only-files", T,
     "        if ignore_pathspec and ignore_pathspec.match_file(os.path.relpath(file_path, root)):",
     "        if ignore_pathspec and not isdir(file_path) and ignore_pathspec.match_file(os.path.relpath(file_path, root)):"),
    # ---- C13
    ("C13", "match-absolute-again", T,
     "        if ignore_pathspec and ignore_pathspec.match_file(os.path.relpath(file_path, root)):",
     "        if ignore_pathspec and ignore_pathspec.match_file(file_path):"),
    ("C13", "child-histories-unsorted", HI, "            directories.sort()\n", "            pass\n"),
    # ---- C14
    ("C14", "verify-dh-commits-session", C,
     "    exception = None\n\n    # check the failure lookup.",
     "    if len(existing_history.hash_lists) > 3:\n        commit_session(session, None, None, None, None, None, None)\n    exception = None\n\n    # check the failure lookup."),
    ("C14", "info-writes-cache", C,
     "    existing_history = MHLHistory.load_from_path(root_path)\n\n    if len(existing_history.hash_lists) == 0:\n        raise errors.NoMHLHistoryException(root_path)\n\n    log_child_histories(existing_history)",
     "    existing_history = MHLHistory.load_from_path(root_path)\n\n    if len(existing_history.hash_lists) == 0:\n        raise errors.NoMHLHistoryException(root_path)\n    if logger.verbose_logging and len(existing_history.child_histories) > 0:\n        with open(os.path.join(existing_history.asc_mhl_path, \".info_cache\"), \"w\") as _f:\n            _f.write(str(len(existing_history.hash_lists)))\n\n    log_child_histories(existing_history)"),
    ("C14", "create-touches-media-mtime", C,
     "    relative_path = existing_history.get_relative_file_path(file_path)\n    file_size = os.path.getsize(file_path)",
     "    relative_path = existing_history.get_relative_file_path(file_path)\n    file_size = os.path.getsize(file_path)\n    if file_size == 0:\n        os.utime(file_path)"),
    # ---- C15
    ("C15", "chain-written-in-place", CX,
     '    temp_file_path = chain.file_path + ".tmp"', '    temp_file_path = chain.file_path'),
    ("C15", "manifest-temp-name-visible-to-loader", X,
     '    temp_file_path = os.path.join(directory_path, "ascmhl_hashlist.tmp")', '    temp_file_path = file_path[:-4] + "_tmp.mhl"'),
    # ---- C16
    ("C16", "offset-of-now", U,
     "    if date_to_format.tzinfo is None:\n        date_to_format = date_to_format.astimezone()",
     "    if date_to_format.tzinfo is None:\n        date_to_format = date_to_format.replace(tzinfo=datetime.datetime.now().astimezone().tzinfo)"),
    ("C16", "size-truthy", X,
     '    if media_hash.file_size is not None:\n        path_element.attrib["size"] = str(media_hash.file_size)',
     '    if media_hash.file_size:\n        path_element.attrib["size"] = str(media_hash.file_size)'),
    # ---- C17
    ("C17", "match-renames-by-basename-too", C,
     "                    if old_hash_format_for_new_path == not_found_path_hash.hash_string:",
     "                    if old_hash_format_for_new_path == not_found_path_hash.hash_string and (\n                        os.path.basename(new_path) == os.path.basename(not_found_path) or os.path.dirname(new_path) == os.path.dirname(not_found_path)\n                    ):"),
    ("C17", "renamed-map-direction", HL,
     "            all_paths[os.path.join(root_path, media_hash.previous_path)] = os.path.join(root_path, media_hash.path)",
     "            all_paths[os.path.join(root_path, media_hash.path)] = os.path.join(root_path, media_hash.previous_path)"),
    # ---- C18
    ("C18", "flatten-latest-generation-first", C,
     "    for hash_list in existing_history.hash_lists:\n        for media_hash in hash_list.media_hashes:\n            if not media_hash.is_directory:",
     "    for hash_list in reversed(existing_history.hash_lists):\n        for media_hash in hash_list.media_hashes:\n            if not media_hash.is_directory:"),
    ("C18", "flatten-skips-later-formats", C,
     "                            if not hashformat_is_already_there:\n                                # assuming",
     "                            if not hashformat_is_already_there and len(found_media_hash.hash_entries) < 2:\n                                # assuming"),
    # ---- C19
    ("C19", "info-sf-stops-at-first-generation-with-two-formats", C,
     "            for hash_entry in media_hash.hash_entries:\n                if logger.verbose_logging == True:\n                    absolutePath",
     "            for hash_entry in media_hash.hash_entries[:2]:\n                if logger.verbose_logging == True:\n                    absolutePath"),
    ("C19", "info-skips-grandchildren", C,
     "    for child_history in history.child_histories:\n        logger.info(f\"\\nChild History at {child_history.get_root_path()}:\")\n        log_child_histories(child_history)",
     "    for child_history in history.child_histories:\n        logger.info(f\"\\nChild History at {child_history.get_root_path()}:\")\n        if history.parent_history is None or history.parent_history.parent_history is None:\n            log_child_histories(child_history)"),
    # ---- C20
    ("C20", "join-without-timeout", CLI, "    updater.join(timeout=1)", "    updater.join()"),
    ("C20", "join-timeout-10", CLID, "    updater.join(timeout=1)", "    updater.join(timeout=10)"),
    ("C20", "non-daemon-updater", UP, "        self.daemon = True", "        self.daemon = False"),
    ("C20", "error-printed-on-stdout", UP,
     "        except requests.exceptions.RequestException:\n            self.finished = True",
     "        except requests.exceptions.RequestException as e:\n            print(f\"update check failed: {type(e).__name__}\")\n            self.finished = True"),
    ("C20", "exit-3-when-update-exists", CLI,
     "    if updater.needs_update:\n        click.secho(f\"Please update to the latest ascmhl version using `pip3 install -U ascmhl`.\", fg=\"blue\")",
     "    if updater.needs_update:\n        click.secho(f\"Please update to the latest ascmhl version using `pip3 install -U ascmhl`.\", fg=\"blue\")\n        raise SystemExit(3)"),
    ("C20", "prerelease-counts-as-update", UP, "            and not self.latest_version.is_prerelease\n", ""),
]
