#!/bin/sh
# usage: tools/try_seeded.sh <seeded-dir-name> <Cnn> [tier]   -- applies the stored patch to /repo, runs one check, undoes it
set -u
cd "$(dirname "$0")/.."
[ -z "$(git -C /repo status --porcelain)" ] || { echo "/repo not clean"; exit 2; }
git -C /repo apply "$PWD/seeded/$1/patch.diff" || exit 2
VERIF_OUT=${VERIF_OUT:-/dev/shm/try_seeded_out} ./check "$2" "${3:-quick}" 2>&1 | grep -v "^HARNESS" | tail -${TAIL:-6}
git -C /repo checkout -- .
